#![no_main]
//! Any in-process sub-check inside a coverage-guided target: the bytes are the choice tape of the
//! sub-check's generator, its oracle decides. `VERIF_FUZZ_SUB=<Cxx>/<sub-check>` selects the sub-check.
//! A violated oracle (or a panic inside rosu-pp) ends the process, so libFuzzer saves the input.
use std::sync::OnceLock;

use libfuzzer_sys::fuzz_target;
use rosu_verif::engine::{run_case, CaseFn};

static SUB: OnceLock<(String, CaseFn)> = OnceLock::new();

fn sub() -> &'static (String, CaseFn) {
    SUB.get_or_init(|| {
        let spec = std::env::var("VERIF_FUZZ_SUB").expect("VERIF_FUZZ_SUB=<Cxx>/<sub-check> must be set");
        let (id, name) = spec.split_once('/').expect("VERIF_FUZZ_SUB=<Cxx>/<sub-check>");
        let prop = rosu_verif::props::property(id).expect("unknown property");
        let f = prop.subchecks.iter().find(|s| s.name == name).expect("unknown sub-check").f;
        (spec, f)
    })
}

fuzz_target!(|data: &[u8]| {
    let (spec, f) = sub();
    let tape: Vec<u32> = data
        .chunks(4)
        .map(|c| {
            let mut b = [0u8; 4];
            b[..c.len()].copy_from_slice(c);
            u32::from_le_bytes(b)
        })
        .collect();
    let (res, _) = run_case(*f, &tape, false);
    if let Err(msg) = res {
        eprintln!("{spec} violated: {msg}");
        std::process::abort();
    }
});
