#![no_main]
//! C06 inside a coverage-guided target: decoding never panics, fails only with io::Error, and every
//! decoded map satisfies the well-formedness invariants; bytes/str entry points agree.
use libfuzzer_sys::fuzz_target;

fuzz_target!(|data: &[u8]| {
    if let Err(msg) = rosu_verif::props::c06::check_bytes(data) {
        panic!("C06 violated: {msg}");
    }
});
