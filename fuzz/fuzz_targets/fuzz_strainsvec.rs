#![no_main]
//! C11(a) inside a coverage-guided target (ASan is on by default in cargo-fuzz builds): the bytes are
//! the choice tape of the StrainsVec operation-sequence generator; the model comparison is the oracle.
use libfuzzer_sys::fuzz_target;

fuzz_target!(|data: &[u8]| {
    let tape: Vec<u32> = data.chunks(4).map(|c| {
        let mut b = [0u8; 4];
        b[..c.len()].copy_from_slice(c);
        u32::from_le_bytes(b)
    }).collect();
    if let Err(msg) = rosu_verif::props::c11::strainsvec_from_tape(&tape) {
        panic!("C11 violated: {msg}");
    }
});
