#![no_main]
//! C05 inside a coverage-guided target: bytes -> decode -> domain gate -> every public calculation.
//! A panic anywhere is the finding (libFuzzer's -timeout / -rss_limit_mb cover hang and OOM).
use libfuzzer_sys::fuzz_target;

fuzz_target!(|data: &[u8]| {
    rosu_verif::props::c05::fuzz_one(data);
});
