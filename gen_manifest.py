#!/usr/bin/env python3
"""Regenerates MANIFEST.json from the table below (keeps it valid and in one place)."""
import json, os
ROOT = os.path.dirname(os.path.abspath(__file__))

PBT = "property-based testing with proptest (choice-tape generators, 16 deterministic shards, shrinking, replay files)"
TAPE_FUZZ = "; thorough tier additionally: coverage-guided libFuzzer campaign (ASan) whose input bytes are the choice tape of the same generator, with the same oracle inside the target"
TAPE_FUZZ_PROPS = {"C02", "C03", "C04", "C07", "C08", "C09", "C12", "C13", "C14", "C15", "C16", "C17", "C18", "C19"}
CLAIMED = {
 "C01": dict(
  technique="stateful " + PBT + ": generated call histories over a pool of maps with a recurrence invariant and purity check, plus a two-process differential on the same seeded histories",
  text="Exploration over call histories (decode, bpm x16, convert by value/ref/mut, difficulty, strains, performance, gradual walks, attribute builder) on tie-heavy and generic maps: a recurring call must give the bit-identical result regardless of what ran in between, no call modifies a borrowed map, and two separate processes produce identical digests.",
  note="Per-process hash keys/ASLR vary between the two driver-spawned processes; within a process every HashMap::default() draws fresh keys.",
  ref="DESIGN.md §4 C01"),
 "C05": dict(
  technique="fuzzing-style generated-input search with process isolation: seeded structured generators (adversarial specs, token corruption at the parser limits, realistic specs) drive a call-everything routine in worker processes; the driver's watchdog, exit status and RLIMIT_AS are the oracle for hang / abort / OOM, catch_unwind for panics",
  text="Exploration of the stated domain (explicit gate, discards counted): adversarial inputs on the release profile, realistic inputs on both the dev profile (overflow checks + debug assertions) and release; every public calculation incl. gradual walks and arbitrary score states per case; hangs confirmed alone with a 10x budget before being reported.",
  note="Hangs are decided by a clock (10 s / 30 s per case under load, confirmed with 10x alone); the open steps-x-sections finding is steered around (labelled).",
  ref="DESIGN.md §4 C05"),
 "C06": dict(
  technique=PBT + " over mutated .osu texts and raw bytes (grammar-based generation + line/token/byte/encoding mutators) with a well-formedness validity predicate, a bytes/str/path round-trip differential and a tagged-sound metamorphic oracle; reference-model check of the sorters through the hook",
  text="Exploration: decoding never panics and fails only with io::Error; every decoded map satisfies the ordering, pairing, strictness and clamp invariants; the three entry points agree; tagged lines keep their sound and stable order; the tandem sorter equals a stable reference sort.",
  note="from_path is exercised on 1/8 of the cases through a temp file under /verif/.build/tmp.",
  ref="DESIGN.md §4 C06"),
 "C02": dict(
  technique=PBT + "; differential oracle: gradual calculator vs one-shot passed_objects(i) on generated maps/settings",
  text="Exploration: generated maps of all modes/converts and Difficulty settings; every gradual value is compared field-by-field with the one-shot prefix calculation, the announced length with the produced count, the last value with the unlimited calculation. Finds counterexamples cheaply and reports how much of the domain was visited; does not prove absence.",
  note="Trusts the harness's .osu renderer and Beatmap::from_bytes as the entry point; both taiko gradual findings are fixed (their witnesses are replayed as regressions; steering only happens while an entry of known_findings.json is open).",
  ref="DESIGN.md §4 C02"),
 "C03": dict(
  technique=PBT + "; differential oracle over generated walks (next/nth/last) and score states: GradualPerformance vs one-shot Performance with passed_objects(i).state(s)",
  text="Exploration over maps x settings x step histories x score states (consistent and inconsistent): every returned PerformanceAttributes is compared on all fields with the one-shot calculation for the prefix the returned difficulty reports.",
  note="No class is excluded at present (steering only happens while a taiko gradual entry of known_findings.json is open).",
  ref="DESIGN.md §4 C03"),
 "C04": dict(
  technique=PBT + "; differential oracle across 13 entry points (map by ref/value, DifficultyAttributes, PerformanceAttributes, mode-specific builders)",
  text="Exploration: the performance result from the map is compared (all fields) with the result from every attribute-based entry point under the same Difficulty (incl. passed_objects) and score specification; embedded difficulty vs one-shot difficulty.",
  note="The same settings are supplied again on the attribute path, as documented.",
  ref="DESIGN.md §4 C04"),
 "C07": dict(
  technique=PBT + "; relational oracle: three conversion entry points agree, decision table for Ok/Err, mode-dispatch calls vs the same call on the explicitly converted map",
  text="Exploration over maps of all native modes (incl. already converted ones) x target x conversion-relevant mods x settings: agreement of convert/convert_ref/convert_mut, identity, error variants, and equality of calculate_for_mode / strains_for_mode / gradual constructors / Performance::try_mode / mode_or_ignore with the explicit conversion.",
  note="Gradual walks would skip inputs inside an open taiko gradual finding; none is open.",
  ref="DESIGN.md §4 C07"),
 "C08": dict(
  technique=PBT + "; differential oracle over the five mod representations and over lazer settings vs explicit setters",
  text="Exploration: difficulty, strains, performance and attribute-builder results must be same-value-equal across u32 / GameModsLegacy / GameModsIntermode / &GameModsIntermode / lazer GameMods; lazer rate mods vs clock_rate(r); lazer DifficultyAdjust vs ar/cs/hp/od(v,false).",
  note="NC encoded as 576; lazer leg skipped (labelled) when the mode lacks a mod; incompatible selections (DT+HT, HR+EZ) are generated and judged like any other.",
  ref="DESIGN.md §4 C08"),
 "C09": dict(
  technique=PBT + "; validity predicate over the canonical dump of every result (finite, non-negative, accuracy in [0,1], zero hits => zero pp) with explicit degenerate map families",
  text="Exploration of realistic maps incl. degenerate families x settings reachable in the game x prefixes x consistent score states; every f64 field of difficulty, strains and performance is checked.",
  note="AR/OD/HP/CS/hit-window fields are only required to be finite.",
  ref="DESIGN.md §4 C09"),
 "C10": dict(
  technique="differential testing across four builds: one seeded generated workload (proptest-drawn choice tapes) executed by binaries compiled with each cargo feature combination; canonical result lines compared",
  text="Exploration: the same generated cases (incl. the long-gap family with up to 180000 zero strain sections) are computed by the default, raw_strains, sync and raw_strains+sync builds; every difficulty / strains / performance / gradual line must be numerically equal.",
  note="Lines longer than 4000 characters are compared by length and FNV hash; replay re-runs one case through all four builds with full lines.",
  ref="DESIGN.md §4 C10"),
 "C11": dict(
  technique="model-based " + PBT + " of the strain list against a plain-Vec reference, generated move/drop/thread histories of gradual calculators against never-moved twins, and a metamorphic decoder oracle; every sub-check runs under the dev profile (debug assertions) and under AddressSanitizer, the strain list also with the raw_strains build",
  text="Exploration of operation sequences / lifetimes / slider-path texts with semantic oracles, plus ASan and debug assertions as additional oracles on the same generated inputs (a sanitizer report aborts the run and is attributed to a case through the case log).",
  note="ASan only sees accesses that happen in an execution; histories dereference after every move. Miri is deliberately not used (see DESIGN).",
  ref="DESIGN.md §4 C11"),
 "C12": dict(
  technique=PBT + " over directly constructed attribute shapes (incl. all-zero counts) and builder specifications with seven validity predicates (P1-P7; P7 = the generating builder and a builder handed the state stay interchangeable across a later origin switch) on generate_state()/calculate()",
  text="Exploration of all four modes x shapes x origins x every subset of provided values (in range, beyond N, huge) x priorities x passed_objects: misses bounded and kept, fitting results never lowered, remainder filled to exactly N, combo bounded, idempotence, calculate() == explicit generated state.",
  note="Release-profile arithmetic; P2 is the weakest reading of `keeps every provided hit result that fits`.",
  ref="DESIGN.md §4 C12"),
 "C13": dict(
  technique="exhaustive small-domain enumeration plus " + PBT + " for sampled large shapes; brute-force optimality oracle over every hit-result distribution",
  text="Every small shape x origin x miss count x priority x critical target grid is enumerated completely and compared with brute force (closest achievable accuracy, exact miss count, exactly N judgements); larger shapes are sampled with the same oracle.",
  note="Absolute slack 1e-9 on accuracy distances; the enumerated space is stated in the evidence rule.",
  ref="DESIGN.md §4 C13"),
 "C14": dict(
  technique=PBT + "; independent recount from the converted map's public hit objects plus monotonicity / capping relations over every passed_objects(n)",
  text="Exploration: counts recomputed by the harness from the explicitly converted map are compared with the attributes for the full map and every prefix n in 0..total+3 (and beyond); counts monotone in n; n>total equals unlimited; is_convert flag.",
  note="Under lazer Invert only relations are checked.",
  ref="DESIGN.md §4 C14"),
 "C17": dict(
  technique=PBT + " over a dense parameter grid with metamorphic relations (round-trip, monotonicity, inverse clock-rate scaling, HR/EZ ordering) and a differential against the values stored by the calculators",
  text="Exploration of mode x mods x clock rate x attribute values x with_mods: build() and hit_windows() agree, with_mods values round-trip, windows monotone in OD/AR, scale inversely with clock rate (mania bound stated separately), HR>=NM>=EZ; calculators store exactly the builder's output.",
  note="Tolerance 1e-9 for relations that involve an inverse computation; calculator agreement is exact.",
  ref="DESIGN.md §4 C17"),
 "C18": dict(
  technique=PBT + " over generated setter lists and permutations: differential (Performance setters vs Difficulty), round-trip (inspect), clamp predicates and metamorphic no-op relations",
  text="Exploration over maps x lists of setter applications (incl. infinities and far out-of-range values) x score specs: forwarding equivalence, order independence, inspect round trip, documented clamps, and no-op setters per mode.",
  note="NaN is never passed to a setter.",
  ref="DESIGN.md §4 C18"),
 "C19": dict(
  technique=PBT + " with a structural validity predicate over converted maps and time-tagged hit sounds (metamorphic pairing oracle)",
  text="Exploration over osu maps x target x key mods 1K-10K: ordering, durations, control-point strictness, taiko sound pairing, mania column bounds and key count, catch identity.",
  note="1/5 of source maps use the adversarial numeric profile.",
  ref="DESIGN.md §4 C19"),
 "C20": dict(
  technique="schedule-perturbing " + PBT + ": generated job lists, thread counts, assignments, sharing modes, yields/spins, hand-over schedules and barrier-synchronised simultaneous starts; oracle = equality with the sequential run; default and sync builds, ThreadSanitizer in the thorough tier",
  text="Exploration: thread-pool runs over shared maps (by reference and Arc) must reproduce the sequential results; a gradual calculator handed around a ring of threads must reproduce the single-thread sequence (taiko with the sync feature); the same job started by 2-8 threads at the same instant (spin barrier) on a never-seen shared map must give every thread the sequential result (first-use initialisation races).",
  note="The harness owns assignments, hand-over points and perturbations, not the OS scheduler; all schedules are not enumerable from user space. TSan (thorough) reports races even when values agree.",
  ref="DESIGN.md §4 C20"),
 "C15": dict(
  technique="model-based (stateful) " + PBT + ": generated call histories over next/nth/len/size_hint/adaptors checked against a reference cursor model",
  text="Exploration over call histories: a reference sequence from plain next() plus a cursor model predicts every observation (values, len, size_hint, None after exhaustion, adaptor outputs); GradualPerformance step arithmetic likewise.",
  note="The reference sequence is the calculator's own next() drain (tied to one-shot results by C02); std adaptors are modelled with a specialisation-free iterator.",
  ref="DESIGN.md §4 C15"),
 "C16": dict(
  technique=PBT + "; re-aggregation oracle: harness re-implementation of the documented decay-weighted sum applied to the returned peaks vs the reported ratings",
  text="Exploration incl. maps with gaps long enough for strains to reach exactly zero (runs of zero sections): peaks finite/non-negative, equal vector lengths, catch and mania stars and osu flashlight reproduced from strains() within 1e-12 relative.",
  note="Tolerance 1e-12 relative (two implementations of one formula).",
  ref="DESIGN.md §4 C16"),
}

REASON_TODO = "check not built yet in this session (planned, see DESIGN.md §4); not claimed until its quick command exists and is silent on the unchanged tree"

def main():
    props = [json.loads(l) for l in open(os.path.join(ROOT, "properties.jsonl"))]
    checks, na = [], []
    for p in props:
        pid = p["id"]
        c = CLAIMED.get(pid)
        if c is None:
            na.append({"property_id": pid, "reason": REASON_TODO})
            continue
        checks.append({
            "property_id": pid,
            "quick_cmd": f"./check {pid} quick",
            "thorough_cmd": f"./check {pid} thorough",
            "evidence_file": f"/verif/evidence/{pid}.json",
            "replay_cmd_template": f"./check {pid} --replay {{path}}",
            "engine": "rosu-verif",
            "level_claimed": {"category": c.get("category", "exploration"), "text": c["text"], "design_ref": c["ref"]},
            "level_note": c["note"],
            "technique": c["technique"] + (TAPE_FUZZ if pid in TAPE_FUZZ_PROPS else ""),
        })
    manifest = {
        "version": 1,
        "setup_cmd": "./check --setup",
        "hooks": {
            "guard": "cargo feature `verif` of rosu-pp (off by default)",
            "enable": "the harness crate depends on rosu-pp via path=/repo and enables it with `--features hook` (= rosu-pp/verif); every check rebuilds from /repo's working tree",
            "baseline_off_cmd": "cd /repo && cargo test --workspace --no-fail-fast --offline",
            "source_commits": ["75beffd"],
            "add_only": True,
        },
        "engines": [{
            "name": "rosu-verif",
            "path": "/verif/harness",
            "serves_properties": sorted(CLAIMED),
            "kind_free_text": "Rust harness: proptest-driven choice-tape generators (maps as .osu text, Difficulty settings, score specs, op histories), per-property oracles, shrinking to replay files; python driver ./check builds and runs it",
        }],
        "checks": checks,
        "not_applicable": na,
        "notes": "Exit codes: 0 held, 1 VIOLATION line printed, 2 infrastructure/inconclusive. Genuine defects: known_findings.json (open -> KNOWN-FINDING lines; fixed -> regression witnesses).",
    }
    json.dump(manifest, open(os.path.join(ROOT, "MANIFEST.json"), "w"), indent=1)
    print(f"{len(checks)} checks claimed, {len(na)} not applicable")

if __name__ == "__main__":
    main()
