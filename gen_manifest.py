#!/usr/bin/env python3
"""Regenerates MANIFEST.json from the table below (keeps it valid and in one place)."""
import json, os
ROOT = os.path.dirname(os.path.abspath(__file__))

CLAIMED = {
 "C02": dict(
  technique="property-based differential testing (proptest choice-tape generators; gradual calculator vs one-shot passed_objects(i) on generated maps/settings; shrunk replay files)",
  text="Exploration: generated maps of all modes/converts and Difficulty settings; every gradual value is compared field-by-field with the one-shot prefix calculation, the announced length with the produced count, the last value with the unlimited calculation. Finds counterexamples cheaply and reports how much of the domain was visited; does not prove absence.",
  note="Trusts the harness's .osu renderer to produce what it describes and Beatmap::from_bytes as the entry point; open taiko findings (known_findings.json) are steered around by construction and replayed from witnesses.",
  ref="DESIGN.md §4 C02"),
 "C15": dict(
  technique="model-based (stateful) property testing: generated call histories over next/nth/len/size_hint/adaptors checked against a reference cursor model",
  text="Exploration over call histories: a reference sequence from plain next() plus a cursor model predicts every observation (values, len, size_hint, None after exhaustion, adaptor outputs); GradualPerformance step arithmetic likewise.",
  note="The reference sequence is the calculator's own next() drain (tied to one-shot results by C02); std adaptors are modelled with a specialisation-free iterator.",
  ref="DESIGN.md §4 C15"),
}

REASON_TODO = "check not built yet in this session (planned, see DESIGN.md §4); not claimed until its quick command exists and is silent on the unchanged tree"

def main():
    props = [json.loads(l) for l in open(os.path.join(ROOT, "properties.jsonl"))]
    checks, na = [], []
    for p in props:
        pid = p["id"]
        c = CLAIMED.get(pid)
        if c is None:
            na.append({"property_id": pid, "reason": REASON_TODO})
            continue
        checks.append({
            "property_id": pid,
            "quick_cmd": f"./check {pid} quick",
            "thorough_cmd": f"./check {pid} thorough",
            "evidence_file": f"/verif/evidence/{pid}.json",
            "replay_cmd_template": f"./check {pid} --replay {{path}}",
            "engine": "rosu-verif",
            "level_claimed": {"category": c.get("category", "exploration"), "text": c["text"], "design_ref": c["ref"]},
            "level_note": c["note"],
            "technique": c["technique"],
        })
    manifest = {
        "version": 1,
        "setup_cmd": "./check --setup",
        "hooks": {
            "guard": "cargo feature `verif` of rosu-pp (off by default)",
            "enable": "the harness crate depends on rosu-pp via path=/repo and enables it with `--features hook` (= rosu-pp/verif); every check rebuilds from /repo's working tree",
            "baseline_off_cmd": "cd /repo && cargo test --workspace --no-fail-fast --offline",
            "source_commits": ["75beffd"],
            "add_only": True,
        },
        "engines": [{
            "name": "rosu-verif",
            "path": "/verif/harness",
            "serves_properties": sorted(CLAIMED),
            "kind_free_text": "Rust harness: proptest-driven choice-tape generators (maps as .osu text, Difficulty settings, score specs, op histories), per-property oracles, shrinking to replay files; python driver ./check builds and runs it",
        }],
        "checks": checks,
        "not_applicable": na,
        "notes": "Exit codes: 0 held, 1 VIOLATION line printed, 2 infrastructure/inconclusive. Genuine defects: known_findings.json (open -> KNOWN-FINDING lines; fixed -> regression witnesses).",
    }
    json.dump(manifest, open(os.path.join(ROOT, "MANIFEST.json"), "w"), indent=1)
    print(f"{len(checks)} checks claimed, {len(na)} not applicable")

if __name__ == "__main__":
    main()
