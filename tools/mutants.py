#!/usr/bin/env python3
"""Bookkeeping for seeded changes (mutants) written by independent sub-agents.

The scratch worktrees and the agents' deliveries lived under /tmp/mut during the build phase and were removed at
its end; `detect` and `sweep` work from the committed copies in /verif/seeded/<Cxx>-m<n>/ (patch.diff, demo.rs),
`confirm` and `store` need a scratch worktree at /tmp/mut/<Cxx>/wt again (git -C /repo worktree add --detach ...).

  mutants.py confirm <Cxx> <n>     in the agent's scratch worktree: existing suite passes with the change,
                                   the demonstration fails with it and passes without it
  mutants.py detect  <Cxx> <n> [check ids...]   apply to /repo, run ./check <id> quick, undo; report VIOLATION or not
  mutants.py store   <Cxx> <n>     copy patch + demo + meta.json to /verif/seeded/<Cxx>-m<n>/
"""
import json, os, re, shutil, subprocess, sys, time

MUT = "/tmp/mut"


def src_of(pid, n):
    """(directory, file number) of mutant n: 1,2 = round 1 (out1/), 3,4 = round 2 (out2/), 5,6 = round 3 (out3/), 7,8 = round 4 (out4/), 9,10 = round 5 (out/), 11 = round 6 (out6/), 12 = round 7 (out7/)."""
    if n >= 12:
        return f"{MUT}/{pid}/out7", n - 11
    if n >= 11:
        return f"{MUT}/{pid}/out6", n - 10
    if n >= 9:
        return f"{MUT}/{pid}/out", n - 8
    if n >= 7:
        d = f"{MUT}/{pid}/out4"
        return (d if os.path.exists(d) else f"{MUT}/{pid}/out"), n - 6
    if n >= 5:
        d = f"{MUT}/{pid}/out3"
        return (d if os.path.exists(d) else f"{MUT}/{pid}/out"), n - 4
    if n >= 3:
        d = f"{MUT}/{pid}/out2"
        return (d if os.path.exists(d) else f"{MUT}/{pid}/out"), n - 2
    d = f"{MUT}/{pid}/out1"
    return (d if os.path.exists(d) else f"{MUT}/{pid}/out"), n


ENV = dict(os.environ, CARGO_NET_OFFLINE="true")
KNOWN_BAD = {"basic_osu", "rng_mania_hitresults"}


def sh(cmd, cwd, timeout=3600):
    p = subprocess.run(cmd, cwd=cwd, env=ENV, shell=True, stdout=subprocess.PIPE, stderr=subprocess.STDOUT, text=True, timeout=timeout)
    return p.returncode, p.stdout


def failed_tests(out):
    return sorted(set(re.findall(r"^test (\S+) \.\.\. FAILED", out, re.M)))


def confirm(pid, n, features=""):
    wt = f"{MUT}/{pid}/wt"
    out_dir, k = src_of(pid, n)
    diff, demo = f"{out_dir}/m{k}.diff", f"{out_dir}/demo{k}.rs"
    res = {"property": pid, "mutant": n, "features": features}
    sh("git checkout -- . && git clean -fdq tests/", wt)
    rc, o = sh(f"git apply --check {diff} && git apply {diff}", wt)
    res["applies"] = rc == 0
    if rc != 0:
        res["error"] = o[-500:]
        return res
    shutil.copy(demo, f"{wt}/tests/zz_demo{n}.rs")
    # demos may include auxiliary files next to them (rare); nothing else is copied
    t0 = time.time()
    feat = f" --features {features}" if features else ""
    rc, o = sh(f"cargo test --offline --no-fail-fast{feat} 2>&1", wt)
    failed = failed_tests(o)
    res["suite_with_change_failed"] = [f for f in failed if f.split("::")[-1] not in KNOWN_BAD and not f.startswith("demo") and "zz_demo" not in f]
    # demo tests are the failures inside the zz_demo binary
    m = re.search(r"Running tests/zz_demo%s\.rs.*?test result: (\w+)\. (\d+) passed; (\d+) failed" % n, o, re.S)
    res["demo_with_change"] = m.groups() if m else None
    res["compiles"] = "error: could not compile" not in o
    res["suite_s"] = round(time.time() - t0)
    # the suite's own failures must not include demo test names: separate them
    demo_names = set(re.findall(r"^test (\S+) \.\.\. ", re.search(r"Running tests/zz_demo%s\.rs(.*?)(?:Running|Doc-tests|$)" % n, o, re.S).group(1), re.M)) if m else set()
    res["suite_with_change_failed"] = [f for f in res["suite_with_change_failed"] if f not in demo_names]
    sh(f"git apply -R {diff}", wt)
    rc, o = sh(f"cargo test --offline{feat} --test zz_demo{n} 2>&1", wt)
    m2 = re.search(r"test result: (\w+)\. (\d+) passed; (\d+) failed", o)
    res["demo_without_change"] = m2.groups() if m2 else None
    sh("git checkout -- . && git clean -fdq tests/", wt)
    res["confirmed"] = bool(res["compiles"] and not res["suite_with_change_failed"] and res["demo_with_change"] and int(res["demo_with_change"][2]) > 0
                            and res["demo_without_change"] and res["demo_without_change"][0] == "ok")
    return res


def detect(pid, n, checks):
    diff = f"/verif/seeded/{pid}-m{n}/patch.diff"
    if not os.path.exists(diff):
        d, k = src_of(pid, n)
        diff = f"{d}/m{k}.diff"
    rc, o = sh(f"git -C /repo status --porcelain --untracked-files=no", "/repo")
    if o.strip():
        return {"error": "/repo is not clean: " + o}
    rc, o = sh(f"git -C /repo apply {diff}", "/repo")
    if rc != 0:
        return {"error": "patch does not apply to /repo: " + o[-300:]}
    results = {}
    try:
        for c in checks:
            t0 = time.time()
            rc, o = sh(f"./check {c} quick 2>&1", "/verif", timeout=3600)
            viol = [l for l in o.splitlines() if l.startswith("VIOLATION")]
            fails = [l[:300] for l in o.splitlines() if l.startswith("FAIL")]
            results[c] = {"exit": rc, "violations": len(viol), "first_fail": fails[:2], "wall_s": round(time.time() - t0)}
    finally:
        sh("git -C /repo checkout -- .", "/repo")
        shutil.rmtree("/verif/replays", ignore_errors=True)
    return results


def store(pid, n, extra):
    src, k = src_of(pid, n)
    dst = f"/verif/seeded/{pid}-m{n}"
    os.makedirs(dst, exist_ok=True)
    shutil.copy(f"{src}/m{k}.diff", f"{dst}/patch.diff")
    shutil.copy(f"{src}/demo{k}.rs", f"{dst}/demo.rs")
    if os.path.exists(f"{src}/notes.md"):
        shutil.copy(f"{src}/notes.md", f"{dst}/agent_notes.md")
    meta = {"breaks_property": pid, "mutant": n}
    meta.update(extra)
    json.dump(meta, open(f"{dst}/meta.json", "w"), indent=1)


ROUND = {"2": (3, 4), "3": (5, 6), "4": (7, 8), "5": (9, 10), "6": (11,), "7": (12,)}.get(os.environ.get("MUT_ROUND", "1"), (1, 2))


def sweep(ids):
    """confirm-data + detection for every delivered mutant; writes /verif/seeded/<id>-m<n>/."""
    head = subprocess.run("git -C /repo rev-parse --short HEAD", shell=True, stdout=subprocess.PIPE, text=True).stdout.strip()
    for pid in ids:
        for n in ROUND:
            src, k = src_of(pid, n)
            if not os.path.exists(f"{src}/m{k}.diff"):
                continue
            conf = {}
            cpath = f"/verif/.build/mut/confirm-{pid}-{n}.json"
            if os.path.exists(cpath):
                try:
                    conf = json.load(open(cpath))
                except ValueError:
                    conf = {"error": open(cpath).read()[-300:]}
            det = detect(pid, n, [pid])
            meta = {
                "breaks_property": pid,
                "written_by": "independent sub-agent given only the property text and a scratch worktree",
                "repo_commit_when_checked": head,
                "confirmed_in_scratch_worktree": {
                    "existing_suite_passes_with_change": conf.get("confirmed") is not None and not conf.get("suite_with_change_failed"),
                    "demo_with_change": conf.get("demo_with_change"),
                    "demo_without_change": conf.get("demo_without_change"),
                    "cargo_features": conf.get("features", ""),
                    "command": "cargo test --offline --no-fail-fast (with the patch applied and demo.rs as tests/zz_demo.rs); cargo test --test zz_demo (clean tree)",
                },
                "detection": det,
                "detected_by": [c for c, r in det.items() if isinstance(r, dict) and r.get("violations")] if "error" not in det else [],
                "how_run": f"git -C /repo apply patch.diff; ./check {pid} quick; git -C /repo checkout -- .",
            }
            store(pid, n, meta)
            print(pid, n, "confirmed" if conf.get("confirmed") else conf.get("error", "unconfirmed")[:80], "->", meta["detected_by"] or det.get("error", "MISSED"), flush=True)


if __name__ == "__main__":
    if sys.argv[1] == "sweep":
        sweep(sys.argv[2:])
        sys.exit(0)
    cmd, pid, n = sys.argv[1], sys.argv[2], int(sys.argv[3])
    if cmd == "confirm":
        print(json.dumps(confirm(pid, n, sys.argv[4] if len(sys.argv) > 4 else "")))
    elif cmd == "detect":
        print(json.dumps(detect(pid, n, sys.argv[4:] or [pid])))
    elif cmd == "store":
        store(pid, n, json.loads(sys.argv[4]) if len(sys.argv) > 4 else {})
