#!/usr/bin/env python3
"""Harmless changes written by independent sub-agents (realistic refactors, rebalances, optimisations that keep
the property): the checks must stay silent on them.

`run` works from the committed copies in /verif/seeded/benign/<Cxx>-b<k>/patch.diff; `confirm` and `store` need the
agents' scratch directories under /tmp/mut, which were removed at the end of the build phase.

  benign.py confirm <Cxx> <k>            suite still passes with the change (agent's scratch worktree)
  benign.py run <Cxx> <k> [check ids..]  apply to /repo, run ./check <id> quick for each id (default: own), undo
  benign.py store <Cxx> <k> <json>       copy patch + notes + record to /verif/seeded/benign/<Cxx>-b<k>/
"""
import json, os, re, shutil, subprocess, sys, time

MUT = "/tmp/mut"
ENV = dict(os.environ, CARGO_NET_OFFLINE="true")
KNOWN_BAD = {"basic_osu", "rng_mania_hitresults"}


def sh(cmd, cwd, timeout=3600):
    p = subprocess.run(cmd, cwd=cwd, env=ENV, shell=True, stdout=subprocess.PIPE, stderr=subprocess.STDOUT, text=True, timeout=timeout)
    return p.returncode, p.stdout


def confirm(pid, k, features=""):
    wt = f"{MUT}/{pid}/wt"
    diff = f"{MUT}/{pid}/outB/b{k}.diff"
    res = {"property": pid, "change": k}
    sh("git checkout -- . && git clean -fdq tests/", wt)
    rc, o = sh(f"git apply --check {diff} && git apply {diff}", wt)
    res["applies"] = rc == 0
    if rc != 0:
        res["error"] = o[-400:]
        return res
    feat = f" --features {features}" if features else ""
    rc, o = sh(f"cargo test --offline --no-fail-fast{feat} 2>&1", wt)
    failed = sorted(set(re.findall(r"^test (\S+) \.\.\. FAILED", o, re.M)))
    res["compiles"] = "error: could not compile" not in o
    res["suite_failed"] = [f for f in failed if f.split("::")[-1] not in KNOWN_BAD]
    sh("git checkout -- . && git clean -fdq tests/", wt)
    return res


def run(pid, k, checks):
    diff = f"/verif/seeded/benign/{pid}-b{k}/patch.diff"
    if not os.path.exists(diff):
        diff = f"{MUT}/{pid}/outB/b{k}.diff"
    rc, o = sh("git -C /repo status --porcelain --untracked-files=no", "/repo")
    if o.strip():
        return {"error": "/repo is not clean: " + o}
    rc, o = sh(f"git -C /repo apply {diff}", "/repo")
    if rc != 0:
        return {"error": "patch does not apply to /repo: " + o[-300:]}
    results = {}
    try:
        for c in checks:
            t0 = time.time()
            rc, o = sh(f"./check {c} quick 2>&1", "/verif", timeout=3600)
            viol = [l for l in o.splitlines() if l.startswith("VIOLATION")]
            fails = [l[:400] for l in o.splitlines() if l.startswith("FAIL")]
            results[c] = {"exit": rc, "violations": len(viol), "first_fail": fails[:2], "wall_s": round(time.time() - t0)}
    finally:
        sh("git -C /repo checkout -- .", "/repo")
        shutil.rmtree("/verif/replays", ignore_errors=True)
    return results


def store(pid, k, record):
    dst = f"/verif/seeded/benign/{pid}-b{k}"
    os.makedirs(dst, exist_ok=True)
    shutil.copy(f"{MUT}/{pid}/outB/b{k}.diff", f"{dst}/patch.diff")
    if os.path.exists(f"{MUT}/{pid}/outB/notes.md"):
        shutil.copy(f"{MUT}/{pid}/outB/notes.md", f"{dst}/agent_notes.md")
    json.dump(record, open(f"{dst}/meta.json", "w"), indent=1)


if __name__ == "__main__":
    cmd, pid, k = sys.argv[1], sys.argv[2], int(sys.argv[3])
    if cmd == "confirm":
        print(json.dumps(confirm(pid, k, sys.argv[4] if len(sys.argv) > 4 else "")))
    elif cmd == "run":
        print(json.dumps(run(pid, k, sys.argv[4:] or [pid])))
    elif cmd == "store":
        store(pid, k, json.loads(sys.argv[4]))
