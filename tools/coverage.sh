#!/bin/bash
# Source-coverage audit of the generated search: which parts of /repo/src do the quick tiers of the
# in-process checks reach?  (An audit tool for the author of the checks, not a registered command.)
#   tools/coverage.sh [scale]      -> .build/cov/report.txt, .build/cov/uncovered_functions.txt
set -e
cd /verif/harness
SCALE=${1:-0.25}
BIN=$(rustc +nightly --print sysroot)/lib/rustlib/x86_64-unknown-linux-gnu/bin
export CARGO_NET_OFFLINE=true
RUSTFLAGS="-C instrument-coverage" CARGO_TARGET_DIR=/verif/.build/cov cargo +nightly build --release --features hook --bin pbt 2>&1 | tail -1
rm -rf /verif/.build/cov/prof && mkdir -p /verif/.build/cov/prof /verif/.build/cov/out
for id in C01 C02 C03 C04 C06 C07 C08 C09 C11 C12 C13 C14 C15 C16 C17 C18 C19 C20; do
  LLVM_PROFILE_FILE=/verif/.build/cov/prof/$id-%p.profraw /verif/.build/cov/release/pbt $id --tier quick --scale $SCALE --out /verif/.build/cov/out/$id.json > /verif/.build/cov/out/$id.log 2>&1 || echo "$id exited non-zero"
  $BIN/llvm-profdata merge -sparse /verif/.build/cov/prof/$id-*.profraw -o /verif/.build/cov/prof/$id.profdata
done
$BIN/llvm-profdata merge -sparse /verif/.build/cov/prof/C*.profdata -o /verif/.build/cov/all.profdata
$BIN/llvm-cov report /verif/.build/cov/release/pbt -instr-profile=/verif/.build/cov/all.profdata --ignore-filename-regex='(\.cargo|rustc|/verif/)' > /verif/.build/cov/report.txt
$BIN/llvm-cov export /verif/.build/cov/release/pbt -instr-profile=/verif/.build/cov/all.profdata --ignore-filename-regex='(\.cargo|rustc|/verif/)' -format=lcov > /verif/.build/cov/all.lcov
python3 - <<'PY'
import re,subprocess
fn=None; out=[]
cur=None
for line in open('/verif/.build/cov/all.lcov'):
    line=line.strip()
    if line.startswith('SF:'): cur=line[3:]
    elif line.startswith('FNDA:'):
        cnt,name=line[5:].split(',',1)
        if cnt=='0': out.append((cur,name))
names=sorted(set(out))
def dem(n):
    return n
open('/verif/.build/cov/uncovered_functions.txt','w').write('\n'.join(f'{a}\t{b}' for a,b in names))
print(len(names),'functions never executed')
PY
tail -3 /verif/.build/cov/report.txt
