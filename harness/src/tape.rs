//! Choice tape: every random decision of every generator is read from a
//! `Vec<u32>` that proptest generates (and shrinks). Reading past the end yields
//! zero, and every helper maps 0 to its *simplest* alternative, so shrinking the
//! tape (shorter / smaller numbers) shrinks the structured value decoded from it.
//! No generator owns an RNG, reads a clock or depends on map iteration order.

#[derive(Clone, Debug)]
pub struct Tape {
    data: Vec<u32>,
    pos: usize,
}

impl Tape {
    pub fn new(data: Vec<u32>) -> Self {
        Self { data, pos: 0 }
    }

    pub fn data(&self) -> &[u32] {
        &self.data
    }

    pub fn consumed(&self) -> usize {
        self.pos
    }

    /// Raw next word (0 when exhausted).
    pub fn raw(&mut self) -> u32 {
        let v = self.data.get(self.pos).copied().unwrap_or(0);
        self.pos += 1;
        v
    }

    /// Uniform in `0..n` (monotone in the raw word, so shrinking converges). `n == 0` yields 0.
    pub fn below(&mut self, n: u32) -> u32 {
        if n <= 1 {
            self.raw();
            return 0;
        }
        ((u64::from(self.raw()) * u64::from(n)) >> 32) as u32
    }

    pub fn below_usize(&mut self, n: usize) -> usize {
        self.below(n.min(u32::MAX as usize) as u32) as usize
    }

    /// Inclusive integer range; `lo` is the simplest value.
    pub fn range(&mut self, lo: i64, hi: i64) -> i64 {
        debug_assert!(hi >= lo);
        let span = (hi - lo) as u64 + 1;
        let r = u64::from(self.raw());
        let off = if span > u64::from(u32::MAX) {
            // combine two words for wide ranges
            let r2 = u64::from(self.raw());
            (((r << 32) | r2) as u128 * span as u128 >> 64) as u64
        } else {
            (r * span) >> 32
        };
        lo + off as i64
    }

    /// `true` with probability num/den; `false` is the simplest value.
    pub fn chance(&mut self, num: u32, den: u32) -> bool {
        // the *high* part of the range is `true`, so a zero word is `false`
        self.below(den) >= den - num.min(den)
    }

    pub fn coin(&mut self) -> bool {
        self.chance(1, 2)
    }

    /// Weighted choice, index 0 is the simplest.
    pub fn weighted(&mut self, weights: &[u32]) -> usize {
        let total: u32 = weights.iter().sum();
        let mut x = self.below(total.max(1));
        for (i, w) in weights.iter().enumerate() {
            if x < *w {
                return i;
            }
            x -= *w;
        }
        weights.len().saturating_sub(1)
    }

    pub fn pick<'a, T>(&mut self, items: &'a [T]) -> &'a T {
        let i = self.below_usize(items.len());
        &items[i]
    }

    /// Uniform float in [0,1).
    pub fn unit(&mut self) -> f64 {
        f64::from(self.raw()) / 4_294_967_296.0
    }

    /// Uniform float in [lo,hi); `lo` simplest.
    pub fn float(&mut self, lo: f64, hi: f64) -> f64 {
        lo + self.unit() * (hi - lo)
    }

    /// Float on a grid `lo + k*step`, k in 0..=n.
    pub fn grid(&mut self, lo: f64, step: f64, n: u32) -> f64 {
        lo + f64::from(self.below(n + 1)) * step
    }
}
