//! C15 — gradual calculators obey the iterator protocol (reference-model check).

use rosu_pp::{any::DifficultyAttributes, model::mode::GameMode, Beatmap, GradualDifficulty, GradualPerformance};
use serde_json::{json, Value};

use super::{
    common::{pick_target, skip_open_taiko, steer_taiko, units},
    Property,
};
use crate::{
    canon::{same, Canon},
    engine::{CaseInfo, SubCheck},
    gen::{
        diff::{gen_diff, mode_from_name, mode_name, DiffProfile, DiffSpec},
        map::{gen_map, map_labels, MapProfile, ALL_MODES},
        score::gen_any_state,
    },
    tape::Tape,
};

#[derive(Clone, Debug)]
enum Op {
    Next,
    Nth(usize),
    Len,
    SizeHint,
    StepBy(usize, usize),
    Skip(usize),
    Take(usize),
    Zip(usize),
    Count,
    Last,
    Collect,
}

impl Op {
    fn to_json(&self) -> Value {
        match self {
            Op::Next => json!(["Next"]),
            Op::Nth(k) => json!(["Nth", k]),
            Op::Len => json!(["Len"]),
            Op::SizeHint => json!(["SizeHint"]),
            Op::StepBy(a, b) => json!(["StepBy", a, b]),
            Op::Skip(k) => json!(["Skip", k]),
            Op::Take(k) => json!(["Take", k]),
            Op::Zip(k) => json!(["Zip", k]),
            Op::Count => json!(["Count"]),
            Op::Last => json!(["Last"]),
            Op::Collect => json!(["Collect"]),
        }
    }
    fn from_json(v: &Value) -> Option<Op> {
        let a = v.as_array()?;
        let n = |i: usize| a.get(i).and_then(Value::as_u64).map(|x| x as usize);
        Some(match a.first()?.as_str()? {
            "Next" => Op::Next,
            "Nth" => Op::Nth(n(1)?),
            "Len" => Op::Len,
            "SizeHint" => Op::SizeHint,
            "StepBy" => Op::StepBy(n(1)?.max(1), n(2)?),
            "Skip" => Op::Skip(n(1)?),
            "Take" => Op::Take(n(1)?),
            "Zip" => Op::Zip(n(1)?),
            "Count" => Op::Count,
            "Last" => Op::Last,
            "Collect" => Op::Collect,
            _ => return None,
        })
    }
}

fn gen_k(t: &mut Tape, len: usize) -> usize {
    match t.weighted(&[6, 3, 2, 1]) {
        0 => t.range(0, 3) as usize,
        1 => t.range(0, len as i64 + 1) as usize,
        2 => *t.pick(&[len.saturating_sub(1), len, len + 1]),
        // far beyond the end: usize::MAX, and values whose low 32 (or 16) bits are small
        _ => match t.below(4) {
            0 => usize::MAX,
            1 => (1usize << 32) + t.range(0, 3) as usize,
            2 => ((t.range(1, 1000) as usize) << 32) | t.range(0, len as i64) as usize,
            _ => (1usize << 16) + t.range(0, 3) as usize,
        },
    }
}

fn gen_ops(t: &mut Tape, len: usize) -> Vec<Op> {
    let n = t.range(1, 24) as usize;
    (0..n)
        .map(|_| match t.weighted(&[8, 8, 3, 2, 2, 2, 2, 1, 1, 1, 1]) {
            0 => Op::Next,
            1 => Op::Nth(gen_k(t, len)),
            2 => Op::Len,
            3 => Op::SizeHint,
            4 => Op::StepBy(t.range(1, 4) as usize, t.range(0, 3) as usize),
            5 => Op::Skip(gen_k(t, len)),
            6 => Op::Take(t.range(0, 4) as usize),
            7 => Op::Zip(t.range(0, 4) as usize),
            8 => Op::Count,
            9 => Op::Last,
            _ => Op::Collect,
        })
        .collect()
}

/// Model iterator over the reference sequence with *no* std specialisations
/// (a slice iterator is `TrustedRandomAccess`, which e.g. makes `zip` not consume
/// the extra element a generic iterator loses) and a consumption counter.
struct Plain<'a> {
    s: &'a [DifficultyAttributes],
    pos: usize,
}

impl Iterator for Plain<'_> {
    type Item = DifficultyAttributes;
    fn next(&mut self) -> Option<DifficultyAttributes> {
        let v = self.s.get(self.pos).cloned();
        if v.is_some() {
            self.pos += 1;
        }
        v
    }
    fn size_hint(&self) -> (usize, Option<usize>) {
        let n = self.s.len() - self.pos;
        (n, Some(n))
    }
}

fn cmp_opt(what: &str, got: &Option<DifficultyAttributes>, exp: Option<&DifficultyAttributes>) -> Result<(), String> {
    match (got, exp) {
        (None, None) => Ok(()),
        (Some(a), Some(b)) => same(what, a, b),
        (Some(_), None) => Err(format!("{what}: got Some, model says None")),
        (None, Some(_)) => Err(format!("{what}: got None, model says Some")),
    }
}

fn cmp_seq(what: &str, got: &[DifficultyAttributes], exp: &[DifficultyAttributes]) -> Result<(), String> {
    if got.len() != exp.len() {
        return Err(format!("{what}: {} items, model says {}", got.len(), exp.len()));
    }
    for (i, (a, b)) in got.iter().zip(exp).enumerate() {
        same(&format!("{what}[{i}]"), a, b)?;
    }
    Ok(())
}

fn setup(t: &mut Tape, info: &mut CaseInfo) -> Result<Option<(rosu_pp::Beatmap, rosu_pp::Difficulty, GameMode, crate::gen::map::MapSpec, crate::gen::diff::DiffSpec)>, String> {
    let profile = MapProfile::small(ALL_MODES, 30);
    let mut spec = gen_map(t, &profile);
    let target = pick_target(t, spec.mode);
    steer_taiko(&mut spec, target, info);
    let mut dspec = gen_diff(t, &DiffProfile::realistic(), target);
    // a quarter of the calculators is built from a Difficulty that already carries passed_objects:
    // whatever it makes of the value, the iterator protocol must still hold
    if t.chance(1, 4) {
        dspec.passed = Some(match t.weighted(&[2, 4]) {
            0 => 0,
            _ => t.range(0, spec.objects.len() as i64 + 2) as u32,
        });
        info.label("preset-passed_objects");
    }
    let map = spec.decode();
    let d = dspec.build(target);
    map_labels(&spec, info);
    info.label(format!("target={target:?}"));
    if skip_open_taiko(&map, &d, target, info)? {
        return Ok(None);
    }
    Ok(Some((map, d, target, spec, dspec)))
}

fn case_difficulty(t: &mut Tape, info: &mut CaseInfo) -> Result<(), String> {
    let Some((map, d, target, spec, dspec)) = setup(t, info)? else { return Ok(()) };
    let l = GradualDifficulty::new_with_mode(d, &map, target).map_err(|e| format!("ctor: {e}"))?.len();
    let ops = gen_ops(t, l);
    let text = spec.render();
    if info.want_sample {
        info.sample = Some(json!({"map": spec.sample(), "target": mode_name(target), "difficulty": dspec.describe(), "ops": format!("{ops:?}")}));
        info.direct = Some(json!({"osu": text, "target": mode_name(target), "difficulty": dspec.to_json(), "ops": ops.iter().map(Op::to_json).collect::<Vec<_>>()}));
    }
    info.set_key(&format!("{spec:?}{dspec:?}{target:?}{ops:?}"));
    oracle_difficulty(&text, target, &dspec, &ops, info)
}

fn direct_difficulty(v: &Value) -> Result<(), String> {
    let text = v.get("osu").and_then(Value::as_str).ok_or("direct case lacks `osu`")?;
    let target = mode_from_name(v.get("target").and_then(Value::as_str).unwrap_or("Osu"));
    let dspec = DiffSpec::from_json(v.get("difficulty").unwrap_or(&Value::Null)).ok_or("bad `difficulty`")?;
    let ops: Vec<Op> = v.get("ops").and_then(Value::as_array).ok_or("direct case lacks `ops`")?.iter().filter_map(Op::from_json).collect();
    oracle_difficulty(text, target, &dspec, &ops, &mut CaseInfo::default())
}

fn oracle_difficulty(text: &str, target: GameMode, dspec: &DiffSpec, ops: &[Op], info: &mut CaseInfo) -> Result<(), String> {
    let map = Beatmap::from_bytes(text.as_bytes()).map_err(|e| format!("decode: {e}"))?;
    let d = dspec.build(target);
    let fresh = || GradualDifficulty::new_with_mode(d.clone(), &map, target).map_err(|e| format!("ctor: {e}"));
    // reference sequence: plain next() on a twin
    let mut twin = fresh()?;
    let cap = twin.len() * 2 + 64;
    let mut s: Vec<DifficultyAttributes> = Vec::new();
    while let Some(v) = twin.next() {
        s.push(v);
        if s.len() > cap {
            return Err(format!("twin drain yields more than {cap} values (announced {})", (cap - 64) / 2));
        }
    }
    // after exhaustion: stays None
    for _ in 0..3 {
        if twin.next().is_some() {
            return Err("next() returned Some after None".into());
        }
    }
    let l = s.len();
    let mut g = fresh()?;
    let mut p = 0usize; // model cursor
    let mut nth_before_end = false;
    let mut call_after_end = false;
    for (i, op) in ops.iter().enumerate() {
        let at = format!("op#{i} {op:?} (cursor {p}/{l})");
        let exhausted_before = p >= l;
        match op {
            Op::Next => {
                let got = g.next();
                cmp_opt(&at, &got, s.get(p))?;
                p = (p + 1).min(l);
            }
            Op::Nth(k) => {
                let got = g.nth(*k);
                let idx = p.checked_add(*k).filter(|i| *i < l);
                cmp_opt(&at, &got, idx.and_then(|i| s.get(i)))?;
                if *k >= 1 && idx.is_some() {
                    nth_before_end = true;
                }
                p = idx.map_or(l, |i| i + 1);
            }
            Op::Len => {
                let got = g.len();
                if got != l - p {
                    return Err(format!("{at}: len()={got}, model {}", l - p));
                }
            }
            Op::SizeHint => {
                let got = g.size_hint();
                if got != (l - p, Some(l - p)) {
                    return Err(format!("{at}: size_hint()={got:?}, model {}", l - p));
                }
            }
            Op::StepBy(step, take) => {
                let got: Vec<_> = g.by_ref().step_by(*step).take(*take).collect();
                // model: same adaptor over the remaining reference items, tracking consumption
                let mut it = Plain { s: &s, pos: p };
                let exp: Vec<_> = it.by_ref().step_by(*step).take(*take).collect();
                cmp_seq(&at, &got, &exp)?;
                p = it.pos;
            }
            Op::Skip(k) => {
                let got = g.by_ref().skip(*k).next();
                let mut it = Plain { s: &s, pos: p };
                let exp = it.by_ref().skip(*k).next();
                cmp_opt(&at, &got, exp.as_ref())?;
                p = it.pos;
            }
            Op::Take(k) => {
                let got: Vec<_> = g.by_ref().take(*k).collect();
                let mut it = Plain { s: &s, pos: p };
                let exp: Vec<_> = it.by_ref().take(*k).collect();
                cmp_seq(&at, &got, &exp)?;
                p = it.pos;
            }
            Op::Zip(k) => {
                let got: Vec<_> = g.by_ref().zip(0..*k).map(|(a, _)| a).collect();
                let mut it = Plain { s: &s, pos: p };
                let exp: Vec<_> = it.by_ref().zip(0..*k).map(|(a, _)| a).collect();
                cmp_seq(&at, &got, &exp)?;
                p = it.pos;
            }
            Op::Count => {
                let got = g.by_ref().count();
                if got != l - p {
                    return Err(format!("{at}: count()={got}, model {}", l - p));
                }
                p = l;
            }
            Op::Last => {
                let got = g.by_ref().last();
                cmp_opt(&at, &got, if p < l { s.last() } else { None })?;
                p = l;
            }
            Op::Collect => {
                let got: Vec<_> = g.by_ref().collect();
                cmp_seq(&at, &got, &s[p..])?;
                p = l;
            }
        }
        info.comparisons += 1;
        // len/size_hint must track the model after every step
        let len_now = g.len();
        if len_now != l - p {
            return Err(format!("after {at}: len()={len_now}, model {}", l - p));
        }
        if exhausted_before {
            call_after_end = true;
        }
    }
    // finally one consuming call *by value* (an overridden Iterator::last / count is only reached this way:
    // `by_ref()` goes through the provided methods of `&mut I`); which one follows from the history's length
    let at = format!("terminal call by value (cursor {p}/{l})");
    match ops.len() % 5 {
        0 => {}
        1 => cmp_opt(&format!("{at}: last()"), &g.last(), if p < l { s.last() } else { None })?,
        2 => {
            let got = g.count();
            if got != l - p {
                return Err(format!("{at}: count()={got}, model {}", l - p));
            }
        }
        3 => {
            let got = g.fuse().enumerate().count();
            if got != l - p {
                return Err(format!("{at}: fuse().enumerate().count()={got}, model {}", l - p));
            }
        }
        _ => {
            let got: Vec<_> = g.skip(1).collect();
            cmp_seq(&format!("{at}: skip(1).collect()"), &got, s.get(p + 1..).unwrap_or(&[]))?;
        }
    }
    info.comparisons += 1;
    // the mode-specific calculator's own count() / last() by value, after k consumed values
    {
        let k = ops.len() % (l + 2);
        let (count, last) = super::common::mode_gradual_terminal(&d, &map, target, k)?;
        let rest = l.saturating_sub(k);
        if count != rest {
            return Err(format!("mode-specific calculator: count() after {k} values = {count}, model {rest}"));
        }
        cmp_opt(&format!("mode-specific calculator: last() after {k} values"), &last, if rest > 0 { s.last() } else { None })?;
        info.comparisons += 2;
    }
    info.nontrivial = nth_before_end && call_after_end;
    Ok(())
}

#[derive(Clone, Debug)]
enum POp {
    Next,
    Nth(usize),
    Last,
    Len,
}

fn case_performance(t: &mut Tape, info: &mut CaseInfo) -> Result<(), String> {
    let Some((map, d, target, spec, dspec)) = setup(t, info)? else { return Ok(()) };
    // total number of steps = length of the gradual difficulty sequence (reference)
    let reference: Vec<DifficultyAttributes> = GradualDifficulty::new_with_mode(d.clone(), &map, target).map_err(|e| e.to_string())?.collect();
    let l = reference.len();
    let n_ops = t.range(1, 16) as usize;
    let ops: Vec<POp> = (0..n_ops)
        .map(|_| match t.weighted(&[6, 6, 1, 3]) {
            0 => POp::Next,
            1 => POp::Nth(gen_k(t, l)),
            2 => POp::Last,
            _ => POp::Len,
        })
        .collect();
    if info.want_sample {
        info.sample = Some(json!({"map": spec.sample(), "target": format!("{target:?}"), "difficulty": dspec.describe(), "ops": format!("{ops:?}")}));
    }
    let mut g = GradualPerformance::new_with_mode(d.clone(), &map, target).map_err(|e| format!("ctor: {e}"))?;
    if g.len() != l {
        return Err(format!("GradualPerformance::len()={} at creation, gradual difficulty yields {l}", g.len()));
    }
    let mut p = 0usize;
    let mut nth_before_end = false;
    let mut call_after_end = false;
    for (i, op) in ops.iter().enumerate() {
        let at = format!("op#{i} {op:?} (cursor {p}/{l})");
        let state = gen_any_state(t, l as u32);
        let remaining = l - p;
        let (got, adv) = match op {
            POp::Next => (g.next(state), 1usize.min(remaining)),
            POp::Nth(k) => {
                if *k >= 1 && remaining > 0 {
                    nth_before_end = true;
                }
                (g.nth(state, *k), k.saturating_add(1).min(remaining))
            }
            POp::Last => (g.last(state), remaining),
            POp::Len => {
                if g.len() != remaining {
                    return Err(format!("{at}: len()={}, model {remaining}", g.len()));
                }
                continue;
            }
        };
        if remaining == 0 {
            call_after_end = true;
            if got.is_some() {
                return Err(format!("{at}: returned Some although nothing remains"));
            }
        } else {
            let Some(attrs) = got else { return Err(format!("{at}: returned None although {remaining} remain")) };
            p += adv;
            let covered = units(&attrs.difficulty_attributes());
            let expected_units = units(&reference[p - 1]);
            if covered != expected_units {
                return Err(format!("{at}: returned attributes cover {covered} objects, expected {expected_units} (cursor {p})"));
            }
            same(&format!("{at}: embedded difficulty vs gradual difficulty value #{p}"), &attrs.difficulty_attributes(), &reference[p - 1])?;
        }
        info.comparisons += 1;
        if g.len() != l - p {
            return Err(format!("after {at}: len()={}, model {}", g.len(), l - p));
        }
    }
    let _ = Canon::dump(&reference);
    info.nontrivial = nth_before_end && call_after_end;
    info.set_key(&format!("{spec:?}{dspec:?}{target:?}{ops:?}"));
    Ok(())
}

pub fn property() -> Property {
    Property {
        id: "C15",
        subchecks: vec![
            SubCheck {
                name: "difficulty-iterator-model",
                rule: "G-MAP (all modes + converts, <=30 objects, sizes 0-3 emphasised) x G-DIFF x op sequence (1-24 ops of next, nth(k) with k in {0..3, around the end, usize::MAX, 2^32+j, m*2^32+j, 2^16+j}, len, size_hint, by_ref().step_by/skip/take/zip/count/last/collect, and one final consuming call by value: last / count / fuse().enumerate().count / skip(1).collect). Reference model: the sequence S a fresh twin yields with plain next() and a cursor; every observation (values same-value-equal on all fields, len/size_hint after every op, None forever after exhaustion) must match. Non-trivial: >=1 nth(k>=1) hitting inside the sequence and >=1 call after exhaustion.",
                quick: 60_000,
                thorough: 200_000,
                tape_len: 1300,
                f: case_difficulty,
                direct: Some(direct_difficulty),
            },
            SubCheck {
                name: "performance-steps-model",
                rule: "same maps/settings; ops next/nth(k)/last/len on GradualPerformance with arbitrary score states. Model: len() starts at the gradual-difficulty sequence length, nth(s,n) advances min(n+1, remaining), last advances to the end, None iff nothing remained; the embedded difficulty equals gradual-difficulty value #cursor. Non-trivial as above.",
                quick: 40_000,
                thorough: 120_000,
                tape_len: 1300,
                f: case_performance,
                direct: None,
            },
        ],
        assumptions: &["the reference sequence is the calculator's own plain-next() drain (C02 ties that sequence to one-shot results)"],
        enumerate: None,
    }
}
