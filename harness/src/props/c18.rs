//! C18 — builder settings mean the same thing wherever they are set.

use rosu_pp::{any::HitResultPriority, model::mode::GameMode, Difficulty, Performance};
use serde_json::json;

use super::{
    common::{calc_for_mode, perf_for_mode, pick_target, skip_open_taiko, strains_for_mode},
    Property,
};
use crate::{
    canon::{same, Canon},
    engine::{CaseInfo, SubCheck},
    gen::{
        diff::{gen_diff, mode_name, DiffProfile, ModsSpec},
        map::{gen_map, map_labels, MapProfile, ALL_MODES},
        score::gen_score_spec,
    },
    tape::Tape,
};

#[derive(Clone, Debug, PartialEq)]
enum Setter {
    Mods(ModsSpec),
    Passed(u32),
    Clock(f64),
    Ar(f32, bool),
    Cs(f32, bool),
    Hp(f32, bool),
    Od(f32, bool),
    HrOffsets(bool),
    Lazer(bool),
}

impl Setter {
    fn kind(&self) -> u8 {
        match self {
            Setter::Mods(_) => 0,
            Setter::Passed(_) => 1,
            Setter::Clock(_) => 2,
            Setter::Ar(..) => 3,
            Setter::Cs(..) => 4,
            Setter::Hp(..) => 5,
            Setter::Od(..) => 6,
            Setter::HrOffsets(_) => 7,
            Setter::Lazer(_) => 8,
        }
    }
    fn on_difficulty(&self, d: Difficulty, mode: GameMode) -> Difficulty {
        match self {
            Setter::Mods(m) => d.mods(m.build(mode)),
            Setter::Passed(n) => d.passed_objects(*n),
            Setter::Clock(c) => d.clock_rate(*c),
            Setter::Ar(v, w) => d.ar(*v, *w),
            Setter::Cs(v, w) => d.cs(*v, *w),
            Setter::Hp(v, w) => d.hp(*v, *w),
            Setter::Od(v, w) => d.od(*v, *w),
            Setter::HrOffsets(h) => d.hardrock_offsets(*h),
            Setter::Lazer(l) => d.lazer(*l),
        }
    }
    fn on_performance<'a>(&self, p: Performance<'a>, mode: GameMode) -> Performance<'a> {
        match self {
            Setter::Mods(m) => p.mods(m.build(mode)),
            Setter::Passed(n) => p.passed_objects(*n),
            Setter::Clock(c) => p.clock_rate(*c),
            Setter::Ar(v, w) => p.ar(*v, *w),
            Setter::Cs(v, w) => p.cs(*v, *w),
            Setter::Hp(v, w) => p.hp(*v, *w),
            Setter::Od(v, w) => p.od(*v, *w),
            Setter::HrOffsets(h) => p.hardrock_offsets(*h),
            Setter::Lazer(l) => p.lazer(*l),
        }
    }
    /// Whether `Performance::<setter>` is documented to ignore this setter for `mode`.
    fn ignored_by_performance(&self, mode: GameMode) -> bool {
        match self {
            Setter::Ar(..) | Setter::Cs(..) => matches!(mode, GameMode::Taiko | GameMode::Mania),
            Setter::HrOffsets(_) => mode != GameMode::Catch,
            Setter::Lazer(_) => matches!(mode, GameMode::Taiko | GameMode::Catch),
            _ => false,
        }
    }
}

fn gen_value(t: &mut Tape) -> f32 {
    match t.weighted(&[6, 3, 2, 1]) {
        0 => (t.range(0, 110) as f32) / 10.0,
        1 => (t.range(-200, 200) as f32) / 10.0,
        2 => *t.pick(&[-20.0f32, 20.0, -25.0, 30.0, 1e9, -1e9]),
        _ => *t.pick(&[f32::INFINITY, f32::NEG_INFINITY, f32::MAX, f32::MIN]),
    }
}

fn gen_clock(t: &mut Tape) -> f64 {
    match t.weighted(&[5, 3, 2, 1]) {
        0 => *t.pick(&[1.5, 0.75, 1.0, 2.0, 0.5, 1.37]),
        1 => t.float(0.5, 2.0),
        2 => *t.pick(&[0.01, 100.0, 0.05, 20.0]),
        _ => *t.pick(&[0.0, -1.0, 1000.0, f64::INFINITY, f64::NEG_INFINITY, 0.001, 1e300]),
    }
}

fn gen_setters(t: &mut Tape, mode: GameMode, n_objects: u32) -> Vec<Setter> {
    let n = t.range(1, 8) as usize;
    (0..n)
        .map(|_| match t.below(9) {
            0 => Setter::Mods(gen_diff(t, &DiffProfile::wide(), mode).mods),
            1 => Setter::Passed(match t.weighted(&[8, 1]) {
                0 => t.range(0, i64::from(n_objects) + 3) as u32,
                _ => u32::MAX,
            }),
            2 => Setter::Clock(gen_clock(t)),
            3 => Setter::Ar(gen_value(t), t.coin()),
            4 => Setter::Cs(gen_value(t), t.coin()),
            5 => Setter::Hp(gen_value(t), t.coin()),
            6 => Setter::Od(gen_value(t), t.coin()),
            7 => Setter::HrOffsets(t.coin()),
            _ => Setter::Lazer(t.coin()),
        })
        .collect()
}

fn case(t: &mut Tape, info: &mut CaseInfo) -> Result<(), String> {
    let spec = gen_map(t, &MapProfile::small(ALL_MODES, 25));
    let target = pick_target(t, spec.mode);
    let map = spec.decode();
    let setters = gen_setters(t, target, spec.objects.len() as u32);
    let score = gen_score_spec(t, spec.objects.len() as u32);
    map_labels(&spec, info);
    info.label(format!("target={target:?}"));
    if info.want_sample {
        info.sample = Some(json!({"map": spec.sample(), "target": mode_name(target), "setters": format!("{setters:?}"), "score": score.describe()}));
    }
    // (a) Performance setters == Performance::difficulty(Difficulty with the setters the mode honours)
    let mut d = Difficulty::new();
    let mut d_honoured = Difficulty::new();
    let mut p = perf_for_mode(&map, target);
    for s in &setters {
        d = s.on_difficulty(d, target);
        if !s.ignored_by_performance(target) {
            d_honoured = s.on_difficulty(d_honoured, target);
        }
        p = s.on_performance(p, target);
    }
    // `difficulty(d)` replaces every earlier setting: setters first, then a Difficulty, equals the Difficulty alone
    for (name, repl) in [("an empty Difficulty", Difficulty::new()), ("a Difficulty with only mods", Difficulty::new().mods(setters.iter().find_map(|s| if let Setter::Mods(m) = s { Some(m.build(target)) } else { None }).unwrap_or_default()))] {
        let after_setters = score.apply(p.clone().difficulty(repl.clone())).calculate();
        let alone = score.apply(perf_for_mode(&map, target).difficulty(repl)).calculate();
        same(&format!("Performance::<setters>.difficulty({name}) vs Performance::difficulty({name})"), &after_setters, &alone)?;
        info.comparisons += 1;
    }
    let via_setters = score.apply(p).calculate();
    let via_difficulty = score.apply(perf_for_mode(&map, target).difficulty(d_honoured.clone())).calculate();
    same("Performance::<setters> vs Performance::difficulty(Difficulty::<setters>)", &via_setters, &via_difficulty)?;
    info.comparisons += 1;
    // (e) documented-irrelevant setters are no-ops on the result, also through Difficulty
    let via_full_difficulty = score.apply(perf_for_mode(&map, target).difficulty(d.clone())).calculate();
    same("irrelevant Difficulty setters (ar/cs for taiko+mania, hardrock_offsets outside catch, lazer for taiko+catch) must not change the result", &via_full_difficulty, &via_difficulty)?;
    same("difficulty attributes with vs without irrelevant setters", &calc_for_mode(&d, &map, target)?, &calc_for_mode(&d_honoured, &map, target)?)?;
    info.comparisons += 2;
    let irrelevant_used = setters.iter().any(|s| s.ignored_by_performance(target));
    info.label_if(irrelevant_used, "irrelevant-setter");

    // score-side no-ops
    let noisy = {
        let mut q = score.apply(perf_for_mode(&map, target).difficulty(d_honoured.clone()));
        let v = t.range(0, 50) as u32;
        match target {
            GameMode::Osu => q = q.n_katu(v).n_geki(v),
            GameMode::Taiko => q = q.n50(v).n_katu(v).n_geki(v).large_tick_hits(v).small_tick_hits(v).slider_end_hits(v),
            GameMode::Catch => {
                q = q.n_geki(v).large_tick_hits(v).small_tick_hits(v).slider_end_hits(v).hitresult_priority(if v % 2 == 0 { HitResultPriority::WorstCase } else { HitResultPriority::BestCase })
            }
            GameMode::Mania => q = q.combo(v).large_tick_hits(v).small_tick_hits(v).slider_end_hits(v),
        }
        q.calculate()
    };
    same("score setters documented as irrelevant for the mode must not change the result", &noisy, &via_difficulty)?;
    info.comparisons += 1;

    // (b) order of independent setters does not matter (last write per kind kept)
    let mut last_per_kind: Vec<Setter> = Vec::new();
    for s in &setters {
        last_per_kind.retain(|x| x.kind() != s.kind());
        last_per_kind.push(s.clone());
    }
    let mut perm = last_per_kind.clone();
    // generated permutation (Fisher-Yates on the tape)
    for i in (1..perm.len()).rev() {
        let j = t.below_usize(i + 1);
        perm.swap(i, j);
    }
    let build = |list: &[Setter]| list.iter().fold(Difficulty::new(), |d, s| s.on_difficulty(d, target));
    let d1 = build(&last_per_kind);
    let d2 = build(&perm);
    if d1 != d2 {
        return Err(format!("setter order changes the Difficulty: {d1:?} vs {d2:?}"));
    }
    if d1 != d {
        return Err(format!("repeated setters: last write does not win: {d:?} vs {d1:?}"));
    }
    same("results under permuted setters", &calc_for_mode(&d1, &map, target)?, &calc_for_mode(&d2, &map, target)?)?;
    info.comparisons += 3;

    // a refused mode switch hands the calculator back unchanged, settings and score included: an osu!-typed
    // calculator on a map it cannot convert (another mode's map, or an osu! map flagged as a convert)
    {
        let mut foreign = map.clone();
        if foreign.mode == GameMode::Osu {
            foreign.is_convert = true;
        }
        let mut q = Performance::Osu(rosu_pp::osu::OsuPerformance::new(&foreign));
        for s in &setters {
            q = s.on_performance(q, GameMode::Osu);
        }
        let q = score.apply(q);
        for other in [GameMode::Taiko, GameMode::Catch, GameMode::Mania] {
            if foreign.convert_ref(other, &rosu_pp::GameMods::default()).is_ok() {
                continue;
            }
            match q.clone().try_mode(other) {
                Ok(_) => return Err(format!("try_mode({other:?}) succeeded on a map that cannot be converted")),
                Err(back) => {
                    if back != q {
                        return Err(format!("try_mode({other:?}) refused the switch but handed back a different calculator: {back:?} vs {q:?}"));
                    }
                }
            }
            if q.clone().mode_or_ignore(other) != q {
                return Err(format!("mode_or_ignore({other:?}) could not switch but changed the calculator"));
            }
            info.comparisons += 2;
        }
    }
    // a clone carries every setting
    #[allow(clippy::redundant_clone)]
    if d.clone() != d {
        return Err(format!("Difficulty::clone() differs from the original: {d:?} -> {:?}", d.clone()));
    }
    // (c) inspect round trip
    let round = d.clone().inspect().into_difficulty();
    if round != d {
        return Err(format!("inspect().into_difficulty() changed the Difficulty: {d:?} -> {round:?}"));
    }
    let via_from: Difficulty = rosu_pp::any::InspectDifficulty::from(d.clone()).into();
    if via_from != d {
        return Err("InspectDifficulty::from(d).into() changed the Difficulty".into());
    }
    same("results after inspect round trip", &calc_for_mode(&round, &map, target)?, &calc_for_mode(&d, &map, target)?)?;
    info.comparisons += 3;

    // (c') an InspectDifficulty filled in by hand with the *raw* (unclamped) values must turn into the same
    // Difficulty as the setter chain, i.e. the documented clamps apply on that route as well
    {
        use rosu_pp::any::{InspectDifficulty, ModsDependent};
        let mut raw = InspectDifficulty::default();
        for s in &last_per_kind {
            match s {
                Setter::Mods(m) => raw.mods = m.build(target),
                Setter::Passed(n) => raw.passed_objects = Some(*n),
                Setter::Clock(c) => raw.clock_rate = Some(*c),
                Setter::Ar(v, w) => raw.ar = Some(ModsDependent { value: *v, with_mods: *w }),
                Setter::Cs(v, w) => raw.cs = Some(ModsDependent { value: *v, with_mods: *w }),
                Setter::Hp(v, w) => raw.hp = Some(ModsDependent { value: *v, with_mods: *w }),
                Setter::Od(v, w) => raw.od = Some(ModsDependent { value: *v, with_mods: *w }),
                Setter::HrOffsets(h) => raw.hardrock_offsets = Some(*h),
                Setter::Lazer(l) => raw.lazer = Some(*l),
            }
        }
        let from_raw = raw.clone().into_difficulty();
        if from_raw != d {
            return Err(format!("InspectDifficulty with raw values {raw:?} turns into {from_raw:?}, the setter chain gives {d:?}"));
        }
        let via_from: Difficulty = raw.into();
        if via_from != d {
            return Err("Difficulty::from(InspectDifficulty) differs from the setter chain".into());
        }
        info.comparisons += 2;
    }

    // (d) clamps
    let insp = d.clone().inspect();
    let mut out_of_range = false;
    for s in &last_per_kind {
        match s {
            Setter::Clock(c) => {
                let exp = c.clamp(0.01, 100.0);
                if insp.clock_rate != Some(exp) {
                    return Err(format!("clock_rate({c}) stored as {:?}, expected {exp}", insp.clock_rate));
                }
                out_of_range |= *c != exp;
                // results equal those of the clamped value
                let a = calc_for_mode(&Difficulty::new().clock_rate(*c), &map, target)?;
                let b = calc_for_mode(&Difficulty::new().clock_rate(exp), &map, target)?;
                same("clock_rate(x) vs clock_rate(clamp(x))", &a, &b)?;
            }
            Setter::Ar(v, w) | Setter::Cs(v, w) | Setter::Hp(v, w) | Setter::Od(v, w) => {
                let exp = v.clamp(-20.0, 20.0);
                let stored = match s {
                    Setter::Ar(..) => insp.ar,
                    Setter::Cs(..) => insp.cs,
                    Setter::Hp(..) => insp.hp,
                    _ => insp.od,
                };
                match stored {
                    Some(m) if m.value == exp && m.with_mods == *w => {}
                    other => return Err(format!("{s:?} stored as {other:?}, expected value {exp}")),
                }
                out_of_range |= *v != exp;
            }
            Setter::Passed(n) => {
                if insp.passed_objects != Some(*n) {
                    return Err(format!("passed_objects({n}) stored as {:?}", insp.passed_objects));
                }
            }
            Setter::HrOffsets(h) => {
                if insp.hardrock_offsets != Some(*h) {
                    return Err("hardrock_offsets not stored".into());
                }
            }
            Setter::Lazer(l) => {
                if insp.lazer != Some(*l) {
                    return Err("lazer not stored".into());
                }
            }
            Setter::Mods(m) => {
                if insp.mods != m.build(target) {
                    return Err("mods not stored".into());
                }
            }
        }
        info.comparisons += 1;
    }
    // (f) the same settings object handed to the gradual calculators means the same thing: the last gradual
    // value equals the one-shot result for those settings (mods, clock rate, overrides, hardrock_offsets, lazer)
    // (a preset passed_objects is left out: only the mania gradual calculator honours it, and the listed
    // gradual properties do not quantify over it)
    let d_all = d.clone();
    let d = setters.iter().filter(|s| !matches!(s, Setter::Passed(_))).fold(Difficulty::new(), |d, s| s.on_difficulty(d, target));
    if !skip_open_taiko(&map, &d, target, info)? {
        let mut g = rosu_pp::GradualDifficulty::new_with_mode(d.clone(), &map, target).map_err(|e| format!("gradual ctor: {e}"))?;
        let n = g.len();
        if n > 0 {
            let last = g.nth(n - 1).ok_or("gradual calculator ended before its announced length")?;
            same("last gradual difficulty value vs one-shot with the same Difficulty", &last, &calc_for_mode(&d, &map, target)?)?;
            let mut gp = rosu_pp::GradualPerformance::new_with_mode(d.clone(), &map, target).map_err(|e| format!("gradual perf ctor: {e}"))?;
            if let Some(lastp) = gp.last(rosu_pp::any::ScoreState::default()) {
                same("difficulty part of the last gradual performance value vs one-shot", &lastp.difficulty_attributes(), &calc_for_mode(&d, &map, target)?)?;
            }
            info.comparisons += 2;
        }
    }
    let d = d_all;
    // strains honour the same settings object
    let _ = strains_for_mode(&d, &map, target)?.dump();
    info.label_if(out_of_range, "out-of-range-value");
    let kinds: std::collections::HashSet<u8> = setters.iter().map(Setter::kind).collect();
    info.nontrivial = kinds.len() >= 3 && (out_of_range || irrelevant_used);
    info.set_key(&format!("{spec:?}{target:?}{setters:?}{score:?}"));
    Ok(())
}

pub fn property() -> Property {
    Property {
        id: "C18",
        subchecks: vec![SubCheck {
            name: "setters-equivalence",
            rule: "G-MAP (all modes + converts, <=25 objects) x a generated list of 1-8 setter applications (mods in any representation, passed_objects, clock_rate incl. 0/-1/inf/1e300, ar/cs/hp/od with both flags incl. +-inf and far out of range, hardrock_offsets, lazer) x score spec x a generated permutation. Oracle: (a) Performance::<setters> == Performance::difficulty(Difficulty::<setters>) on all fields; (a') setters followed by difficulty(D') equal difficulty(D') alone (the Difficulty replaces every earlier setting); (a'') a refused try_mode / mode_or_ignore on an osu!-typed calculator hands it back == unchanged; (b) any order of independent setters gives an == Difficulty and equal results, repeated setters: last wins; (c) inspect().into_difficulty() and InspectDifficulty::from round-trip to an == Difficulty, and an InspectDifficulty filled in by hand with the raw unclamped values converts to the same Difficulty as the setter chain; (d) inspect() shows clamp(clock,0.01,100) / clamp(value,-20,20) and results equal those of the clamped value; (e) setters documented as irrelevant for the mode (Difficulty/Performance ar+cs for taiko/mania, hardrock_offsets outside catch, lazer for taiko/catch; score setters combo for mania, n50 for taiko, n_katu/n_geki/tick setters outside their modes, priority for catch) leave results untouched; (f) the same Difficulty handed to GradualDifficulty / GradualPerformance: their last value's difficulty attributes equal the one-shot result (open taiko class skipped). Non-trivial: >=3 distinct setter kinds and an out-of-range value or an irrelevant setter.",
            quick: 10_000,
            thorough: 200_000,
            tape_len: 1300,
            f: case,
            direct: None,
        }],
        assumptions: &["NaN is never passed to a setter (no documented meaning)"],
        enumerate: None,
    }
}
