//! C06 — decoding is total and always yields a well-formed beatmap.

use std::{io::Write, sync::OnceLock};

use rosu_pp::{model::mode::GameMode, Beatmap};
use serde_json::json;

use super::{wellformed::check_structure, Property};
use crate::{
    engine::{guarded, CaseInfo, SubCheck},
    gen::map::{gen_map, MapProfile, ALL_MODES},
    known,
    tape::Tape,
};

/// The four fixture maps trimmed to their first object lines (read once from /repo/resources).
pub fn fixtures() -> &'static Vec<String> {
    static F: OnceLock<Vec<String>> = OnceLock::new();
    F.get_or_init(|| {
        let mut out = Vec::new();
        for name in ["1028484", "1638954", "2118524", "2785319"] {
            let path = format!("/repo/resources/{name}.osu");
            let Ok(text) = std::fs::read_to_string(&path) else { continue };
            let mut kept = String::new();
            let mut in_objects = false;
            let mut n = 0;
            for line in text.lines() {
                if line.starts_with("[HitObjects]") {
                    in_objects = true;
                } else if in_objects {
                    n += 1;
                    if n > 80 {
                        break;
                    }
                }
                kept.push_str(line);
                kept.push('\n');
            }
            out.push(kept);
        }
        out
    })
}

const TOKENS: &[&str] = &[
    "NaN", "inf", "-inf", "1e999", "-0", "2147483647", "2147483648", "-2147483648", "-2147483649", "131072", "131073", "-131072", "9000", "9001", "",
    "abc", "1e-320", "0x10", "1.5", "-1", "4294967296", "99999999999999999999", "1,2", "|", ":", "0:0:0:0:", "B|1:1", "٣",
    // signed / alternative spellings the float parser accepts
    "-nan", "-NaN", "+NaN", "nan", "+inf", "infinity", "-Infinity", "-0.0", "+0", "1e-400", "-1e-400", "-1e999", ".5", "5.", "+7", " 3", "3 ", "1_0",
];

fn mutate_lines(t: &mut Tape, text: &str, labels: &mut Vec<&'static str>) -> String {
    let mut lines: Vec<String> = text.lines().map(str::to_string).collect();
    let n_mut = t.range(1, 6) as usize;
    for _ in 0..n_mut {
        if lines.is_empty() {
            break;
        }
        let i = t.below_usize(lines.len());
        match t.below(11) {
            0 => {
                lines.remove(i);
                labels.push("mut:delete-line");
            }
            1 => {
                let l = lines[i].clone();
                lines.insert(i, l);
                labels.push("mut:duplicate-line");
            }
            2 => {
                let j = t.below_usize(lines.len());
                lines.swap(i, j);
                labels.push("mut:swap-lines");
            }
            3 => {
                // shuffle a window (object / timing lines out of order)
                let end = (i + t.range(2, 12) as usize).min(lines.len());
                for k in (i + 1..end).rev() {
                    let j = i + t.below_usize(k - i + 1);
                    lines.swap(k, j);
                }
                labels.push("mut:shuffle-window");
            }
            4 | 5 => {
                // replace one comma field by a limit token
                let mut fields: Vec<String> = lines[i].split(',').map(str::to_string).collect();
                let f = t.below_usize(fields.len());
                fields[f] = (*t.pick(TOKENS)).to_string();
                lines[i] = fields.join(",");
                labels.push("mut:token");
            }
            6 => {
                // move a line to another place (possibly another section)
                let l = lines.remove(i);
                let j = t.below_usize(lines.len() + 1);
                lines.insert(j, l);
                labels.push("mut:move-line");
            }
            9 | 10 => {
                // sub-field mutation: the fields inside a comma field are separated by '|' (slider path, edge
                // sounds) or ':' (points, sample sets); choose the next line that has one, if any
                let Some(k) = (i..lines.len()).chain(0..i).find(|k| lines[*k].contains('|')) else { continue };
                let mut fields: Vec<String> = lines[k].split(',').map(str::to_string).collect();
                let Some(f) = (0..fields.len()).find(|f| fields[*f].contains('|')) else { continue };
                let mut parts: Vec<String> = fields[f].split('|').map(str::to_string).collect();
                let at = t.below_usize(parts.len() + 1);
                match t.below(6) {
                    0 => parts.push((*t.pick(&["L", "B", "P", "C", "", "x", "1", "1:", ":1", "1:2:3"])).to_string()),
                    1 => parts.insert(at, (*t.pick(&["L", "B", "P", "C", "", "100:100", "1e9:1", "-1:-1", "131073:0", "NaN:0", "1:x"])).to_string()),
                    2 => {
                        if at < parts.len() {
                            parts.remove(at);
                        }
                    }
                    3 => {
                        if at < parts.len() {
                            let dup = parts[at].clone();
                            parts.insert(at, dup);
                        }
                    }
                    4 => {
                        if at < parts.len() {
                            parts[at] = (*t.pick(TOKENS)).to_string();
                        }
                    }
                    _ => parts.reverse(),
                }
                fields[f] = parts.join("|");
                lines[k] = fields.join(",");
                labels.push("mut:sub-field");
            }
            7 => {
                let cut = t.below_usize(lines[i].len() + 1);
                let mut c = cut;
                while !lines[i].is_char_boundary(c) {
                    c -= 1;
                }
                lines[i].truncate(c);
                labels.push("mut:truncate-line");
            }
            _ => {
                lines.insert(i, (*t.pick(&["[HitObjects]", "[TimingPoints]", "[Difficulty]", "[General]", "[Events]", "[Nonsense]", "osu file format v9", "// c", "", "[Editor]", "[Metadata]", "[Colours]", "[Variables]", "[CatchTheBeat]", "[Mania]", "[hitobjects]", "[HitObjects] ", "osu file format v128", "osu file format v3"])).to_string());
                labels.push("mut:insert-header");
            }
        }
    }
    let sep = if t.chance(1, 5) { "\r\n" } else { "\n" };
    lines.join(sep)
}

fn mutate_bytes(t: &mut Tape, mut bytes: Vec<u8>, labels: &mut Vec<&'static str>) -> Vec<u8> {
    match t.below(8) {
        0 => {}
        1 => {
            for _ in 0..t.range(1, 8) {
                if bytes.is_empty() {
                    break;
                }
                let i = t.below_usize(bytes.len());
                bytes[i] ^= 1 << t.below(8);
            }
            labels.push("bytes:flip");
        }
        2 => {
            let cut = t.below_usize(bytes.len() + 1);
            bytes.truncate(cut);
            labels.push("bytes:truncate");
        }
        3 => {
            let i = t.below_usize(bytes.len() + 1);
            let ins: Vec<u8> = (0..t.range(1, 6)).map(|_| t.raw() as u8).collect();
            bytes.splice(i..i, ins);
            labels.push("bytes:insert");
        }
        4 => {
            // one UTF-8 byte order mark, sometimes two or three in a row
            let n = *t.pick(&[1usize, 1, 1, 2, 2, 3]);
            let mut v = Vec::new();
            for _ in 0..n {
                v.extend([0xEF, 0xBB, 0xBF]);
            }
            v.extend(bytes);
            bytes = v;
            labels.push(if n == 1 { "enc:utf8-bom" } else { "enc:utf8-bom-repeated" });
        }
        5 | 6 => {
            let le = t.coin();
            let text = String::from_utf8_lossy(&bytes).into_owned();
            let mut v: Vec<u8> = if le { vec![0xFF, 0xFE] } else { vec![0xFE, 0xFF] };
            for u in text.encode_utf16() {
                v.extend(if le { u.to_le_bytes() } else { u.to_be_bytes() });
            }
            if t.chance(1, 4) {
                v.pop(); // odd length
            }
            bytes = v;
            labels.push(if le { "enc:utf16le" } else { "enc:utf16be" });
        }
        _ => {
            bytes.extend([0xFF, 0xC0, 0x80, 0xF5]);
            labels.push("enc:invalid-utf8-tail");
        }
    }
    bytes
}

fn check_ranges(m: &Beatmap) -> Result<(), String> {
    let r = |name: &str, v: f64, lo: f64, hi: f64| if v >= lo && v <= hi { Ok(()) } else { Err(format!("{name} = {v} outside [{lo}, {hi}]")) };
    r("ar", m.ar.into(), 0.0, 10.0)?;
    r("od", m.od.into(), 0.0, 10.0)?;
    r("hp", m.hp.into(), 0.0, 10.0)?;
    if m.mode == GameMode::Mania {
        r("cs", m.cs.into(), 1.0, 18.0)?;
    } else {
        r("cs", m.cs.into(), 0.0, 10.0)?;
    }
    r("slider_multiplier", m.slider_multiplier, 0.4, 3.6)?;
    r("slider_tick_rate", m.slider_tick_rate, 0.5, 8.0)?;
    if !m.stack_leniency.is_finite() {
        return Err(format!("stack_leniency = {} not finite", m.stack_leniency));
    }
    for (i, p) in m.timing_points.iter().enumerate() {
        r(&format!("timing_points[{i}].beat_len"), p.beat_len, 6.0, 60_000.0)?;
    }
    for (i, p) in m.difficulty_points.iter().enumerate() {
        r(&format!("difficulty_points[{i}].slider_velocity"), p.slider_velocity, 0.1, 10.0)?;
        r(&format!("difficulty_points[{i}].bpm_multiplier"), p.bpm_multiplier, 0.1, 100.0)?;
    }
    for (i, p) in m.effect_points.iter().enumerate() {
        r(&format!("effect_points[{i}].scroll_speed"), p.scroll_speed, 0.01, 10.0)?;
    }
    for (i, h) in m.hit_objects.iter().enumerate() {
        r(&format!("hit_objects[{i}].x"), h.pos.x.into(), -131_072.0, 131_072.0)?;
        r(&format!("hit_objects[{i}].y"), h.pos.y.into(), -131_072.0, 131_072.0)?;
        if h.pos.x.fract() != 0.0 || h.pos.y.fract() != 0.0 {
            return Err(format!("hit_objects[{i}].pos = {:?} not integral", h.pos));
        }
        r(&format!("hit_objects[{i}].start_time"), h.start_time, -2_147_483_648.0, 2_147_483_648.0)?;
    }
    for (i, b) in m.breaks.iter().enumerate() {
        if !(b.end_time >= b.start_time) {
            return Err(format!("breaks[{i}]: end {} before start {}", b.end_time, b.start_time));
        }
    }
    if m.is_convert {
        return Err("freshly decoded map is marked as convert".into());
    }
    Ok(())
}

fn tmp_path() -> std::path::PathBuf {
    let dir = known::root().join(".build").join("tmp");
    let _ = std::fs::create_dir_all(&dir);
    dir.join(format!("c06-{}-{:?}.osu", std::process::id(), std::thread::current().id()))
}

/// Invariants (1)-(3) on one byte string. Returns whether it decoded to >=2 objects or control points.
fn oracle(bytes: &[u8], check_path: bool, info: &mut CaseInfo) -> Result<bool, String> {
    let res = guarded(|| Beatmap::from_bytes(bytes)).map_err(|p| format!("from_bytes panicked: {p}"))?;
    info.comparisons += 1;
    // (3) same content through str / path
    if let Ok(s) = std::str::from_utf8(bytes) {
        let via_str = guarded(|| s.parse::<Beatmap>()).map_err(|p| format!("from_str panicked: {p}"))?;
        match (&res, &via_str) {
            (Ok(a), Ok(b)) => {
                if a != b {
                    return Err("from_bytes and from_str decode the same content differently".into());
                }
            }
            (Err(a), Err(b)) => {
                if a.kind() != b.kind() {
                    return Err(format!("from_bytes fails with {:?}, from_str with {:?}", a.kind(), b.kind()));
                }
            }
            _ => return Err(format!("from_bytes is_ok={} but from_str is_ok={}", res.is_ok(), via_str.is_ok())),
        }
        info.comparisons += 1;
    }
    if check_path {
        let path = tmp_path();
        std::fs::File::create(&path).and_then(|mut f| f.write_all(bytes)).map_err(|e| format!("harness: cannot write temp file: {e}"))?;
        let via_path = guarded(|| Beatmap::from_path(&path)).map_err(|p| format!("from_path panicked: {p}"));
        let _ = std::fs::remove_file(&path);
        let via_path = via_path?;
        match (&res, &via_path) {
            (Ok(a), Ok(b)) => {
                if a != b {
                    return Err("from_bytes and from_path decode the same content differently".into());
                }
            }
            (Err(a), Err(b)) => {
                if a.kind() != b.kind() {
                    return Err(format!("from_bytes fails with {:?}, from_path with {:?}", a.kind(), b.kind()));
                }
            }
            _ => return Err(format!("from_bytes is_ok={} but from_path is_ok={}", res.is_ok(), via_path.is_ok())),
        }
        info.comparisons += 1;
    }
    // (2) well-formedness
    match res {
        Err(_) => {
            info.label("decode-error(io)");
            Ok(false)
        }
        Ok(m) => {
            if m.hit_sounds.len() != m.hit_objects.len() {
                return Err(format!("{} hit sounds for {} hit objects", m.hit_sounds.len(), m.hit_objects.len()));
            }
            check_structure(&m)?;
            check_ranges(&m)?;
            info.comparisons += 1;
            Ok(m.hit_objects.len() >= 2 || m.timing_points.len() + m.difficulty_points.len() + m.effect_points.len() >= 2)
        }
    }
}

/// Entry point for the coverage-guided fuzz target (no temp file).
pub fn check_bytes(bytes: &[u8]) -> Result<(), String> {
    oracle(bytes, false, &mut CaseInfo::default()).map(|_| ())
}

fn case_mutated(t: &mut Tape, info: &mut CaseInfo) -> Result<(), String> {
    let mut labels = Vec::new();
    let base = match t.weighted(&[5, 2, 1]) {
        0 => {
            let mut prof = if t.coin() { MapProfile::adversarial(ALL_MODES, 40) } else { MapProfile::small(ALL_MODES, 40) };
            prof.negative_start = true;
            labels.push("base:generated");
            gen_map(t, &prof).render()
        }
        1 if !fixtures().is_empty() => {
            labels.push("base:fixture");
            t.pick(fixtures()).clone()
        }
        _ => {
            labels.push("base:noise");
            let n = *t.pick(&[0usize, 1, 2, 3, 17, 200]);
            return {
                let bytes: Vec<u8> = (0..n).map(|_| t.raw() as u8).collect();
                for l in labels {
                    info.label(l);
                }
                if info.want_sample {
                    info.sample = Some(json!({"bytes_hex": bytes.iter().take(64).map(|b| format!("{b:02x}")).collect::<String>(), "len": bytes.len()}));
                }
                let nt = oracle(&bytes, t.chance(1, 8), info)?;
                info.nontrivial = nt;
                info.key = crate::engine::fnv(&bytes);
                Ok(())
            };
        }
    };
    let text = if t.chance(5, 6) { mutate_lines(t, &base, &mut labels) } else { base };
    let bytes = mutate_bytes(t, text.into_bytes(), &mut labels);
    let mutated = labels.iter().any(|l| l.starts_with("mut:") || l.starts_with("bytes:") || l.starts_with("enc:"));
    for l in labels {
        info.label(l);
    }
    if info.want_sample {
        let s = String::from_utf8_lossy(&bytes);
        let tail: String = s.lines().rev().take(6).collect::<Vec<_>>().into_iter().rev().collect::<Vec<_>>().join("\n");
        info.sample = Some(json!({"len": bytes.len(), "tail": tail}));
        info.direct = Some(json!({"bytes_hex": bytes.iter().map(|b| format!("{b:02x}")).collect::<String>()}));
    }
    let decoded_something = oracle(&bytes, t.chance(1, 8), info)?;
    info.nontrivial = mutated && decoded_something;
    info.key = crate::engine::fnv(&bytes);
    Ok(())
}

fn direct_bytes(v: &serde_json::Value) -> Result<(), String> {
    let hex = v.get("bytes_hex").and_then(serde_json::Value::as_str).ok_or("direct case lacks bytes_hex")?;
    let bytes: Vec<u8> = (0..hex.len() / 2).filter_map(|i| u8::from_str_radix(&hex[2 * i..2 * i + 2], 16).ok()).collect();
    oracle(&bytes, true, &mut CaseInfo::default()).map(|_| ())
}

/// Tagged generator: unique positions, sound = tag(position), shuffled file order with equal-time groups.
fn case_tagged(t: &mut Tape, info: &mut CaseInfo) -> Result<(), String> {
    let mode = t.below(4) as u8;
    let n = t.range(2, 60) as usize;
    let tag = |i: usize| -> u8 { ((i * 37 + 11) % 256) as u8 };
    // times with deliberate equal-time groups
    let mut times = Vec::with_capacity(n);
    let mut cur = t.range(-2000, 5000) as f64;
    for _ in 0..n {
        times.push(cur);
        cur += match t.weighted(&[3, 4, 1]) {
            0 => 0.0,
            1 => t.range(1, 400) as f64,
            _ => t.range(400, 100_000) as f64,
        };
    }
    // file order: a generated permutation
    let mut order: Vec<usize> = (0..n).collect();
    if t.chance(5, 6) {
        for i in (1..n).rev() {
            let j = t.below_usize(i + 1);
            order.swap(i, j);
        }
    }
    let mut text = format!("osu file format v14\n\n[General]\nMode: {mode}\n\n[Difficulty]\nCircleSize:4\n\n[TimingPoints]\n0,500,4,2,0,60,1,0\n\n[HitObjects]\n");
    let mut lines = Vec::new();
    for (file_idx, &slot) in order.iter().enumerate() {
        // position encodes the *file* index: unique per line
        let (x, y) = ((file_idx % 500) as i32, (file_idx / 500) as i32 + (slot as i32 % 3) * 100);
        let time = times[slot];
        let sound = tag(file_idx);
        let line = match t.below(4) {
            0 | 1 => format!("{x},{y},{time},1,{sound},0:0:0:0:"),
            2 => format!("{x},{y},{time},2,{sound},L|{}:{},1,50", x + 50, y),
            _ => {
                if mode == 3 {
                    format!("{x},{y},{time},128,{sound},{}:0:0:0:0:", time + 200.0)
                } else {
                    format!("{x},{y},{time},12,{sound},{}", time + 200.0)
                }
            }
        };
        text.push_str(&line);
        text.push('\n');
        lines.push((x, y, time, sound, file_idx));
    }
    info.label(format!("mode{mode}"));
    if info.want_sample {
        info.sample = Some(json!({"mode": mode, "n": n, "lines_head": text.lines().rev().take(5).collect::<Vec<_>>()}));
        info.direct = Some(json!({"bytes_hex": text.bytes().map(|b| format!("{b:02x}")).collect::<String>()}));
    }
    let m = guarded(|| Beatmap::from_bytes(text.as_bytes())).map_err(|p| format!("from_bytes panicked: {p}"))?.map_err(|e| format!("io error on generated text: {e}"))?;
    if m.hit_objects.len() != n || m.hit_sounds.len() != n {
        return Err(format!("{n} object lines decoded to {} objects / {} sounds", m.hit_objects.len(), m.hit_sounds.len()));
    }
    check_structure(&m)?;
    let mut equal_groups = false;
    if mode != 3 {
        let mut prev: Option<(f64, usize)> = None;
        for (i, (h, s)) in m.hit_objects.iter().zip(&m.hit_sounds).enumerate() {
            // recover the file index from the position
            let Some(&(_, _, time, sound, file_idx)) = lines.iter().find(|l| l.0 as f32 == h.pos.x && l.1 as f32 == h.pos.y) else {
                return Err(format!("object {i} at {:?} does not correspond to any line", h.pos));
            };
            if h.start_time != time {
                return Err(format!("object {i}: time {} but its line says {time}", h.start_time));
            }
            if *s != sound {
                return Err(format!("object {i} (file line {file_idx}) carries sound {} but its line says {sound}", u8::from(*s)));
            }
            if let Some((pt, pf)) = prev {
                if pt == time {
                    equal_groups = true;
                    if pf > file_idx {
                        return Err(format!("equal start time {time}: file line {pf} sorted before line {file_idx} (not stable)"));
                    }
                }
            }
            prev = Some((time, file_idx));
            info.comparisons += 1;
        }
    } else {
        // mania: permutation of the lines (legacy sort is unstable, pairing is not promised)
        let mut pos: Vec<(i32, i32)> = m.hit_objects.iter().map(|h| (h.pos.x as i32, h.pos.y as i32)).collect();
        let mut exp: Vec<(i32, i32)> = lines.iter().map(|l| (l.0, l.1)).collect();
        pos.sort_unstable();
        exp.sort_unstable();
        if pos != exp {
            return Err("mania decode: objects are not a permutation of the lines".into());
        }
    }
    info.label_if(equal_groups, "equal-time-group");
    info.nontrivial = order.windows(2).any(|w| w[0] > w[1]);
    info.set_key(&text);
    Ok(())
}

fn case_sorters(t: &mut Tape, info: &mut CaseInfo) -> Result<(), String> {
    use rosu_pp::__verif::{osu_legacy, TandemSorter};
    let n = t.range(0, 80) as usize;
    let keys: Vec<i32> = (0..n).map(|_| t.range(0, 12) as i32).collect();
    let payload: Vec<usize> = (0..n).collect();
    let mut a = keys.clone();
    let mut b = payload.clone();
    let mut sorter = TandemSorter::new_stable(&a, |x, y| x.cmp(y));
    sorter.sort(&mut a);
    sorter.sort(&mut b);
    let mut zipped: Vec<(i32, usize)> = keys.iter().copied().zip(payload).collect();
    zipped.sort_by(|x, y| x.0.cmp(&y.0));
    let exp_a: Vec<i32> = zipped.iter().map(|z| z.0).collect();
    let exp_b: Vec<usize> = zipped.iter().map(|z| z.1).collect();
    if a != exp_a || b != exp_b {
        return Err(format!("TandemSorter::new_stable disagrees with a stable sort_by on the zipped pairs: keys {keys:?} -> {a:?} / {b:?}"));
    }
    info.comparisons += 1;
    // legacy sort: every caller passes objects that are already sorted by start time (it only
    // re-orders equal-time groups the way osu!stable did), so that is the input domain here:
    // the output must stay sorted and be a permutation.
    let mut sorted_keys = keys.clone();
    sorted_keys.sort_unstable();
    let objs: Vec<rosu_pp::model::hit_object::HitObject> = sorted_keys
        .iter()
        .enumerate()
        .map(|(i, k)| rosu_pp::model::hit_object::HitObject {
            pos: rosu_pp::model::hit_object::Pos::new(i as f32, 0.0),
            start_time: f64::from(*k) * 10.0,
            kind: rosu_pp::model::hit_object::HitObjectKind::Circle,
        })
        .collect();
    let mut sorted = objs.clone();
    osu_legacy(&mut sorted);
    if sorted.windows(2).any(|w| w[0].start_time > w[1].start_time) {
        return Err(format!("osu_legacy output not sorted for keys {keys:?}"));
    }
    let mut ids: Vec<i32> = sorted.iter().map(|h| h.pos.x as i32).collect();
    ids.sort_unstable();
    if ids != (0..n as i32).collect::<Vec<_>>() {
        return Err(format!("osu_legacy output is not a permutation of its input for keys {keys:?}"));
    }
    info.comparisons += 1;
    // the C# introsort port (unstable): sorted permutation of its input, on random keys with ties and on a
    // "killer" order built by McIlroy's adversary against this very implementation (drives the quicksort
    // phase to its depth limit, so the heap-sort fallback runs)
    {
        use rosu_pp::__verif::csharp;
        let check = |name: &str, input: &[i64]| -> Result<(), String> {
            let mut v = input.to_vec();
            csharp(&mut v, |a, b| a.cmp(b));
            let mut exp = input.to_vec();
            exp.sort_unstable();
            if v != exp {
                return Err(format!("csharp::sort ({name}, {} keys) is not the sorted permutation of its input: {:?}...", input.len(), &input[..input.len().min(40)]));
            }
            Ok(())
        };
        let wide: Vec<i64> = keys.iter().enumerate().map(|(i, k)| i64::from(*k) * if i % 3 == 0 { 1 } else { 7 }).collect();
        check("random keys with ties", &wide)?;
        let m = match t.weighted(&[4, 2, 1]) {
            0 => t.range(17, 120) as usize,
            1 => t.range(120, 600) as usize,
            _ => t.range(600, 3000) as usize,
        };
        let gas = i64::MAX;
        let val = std::cell::RefCell::new(vec![gas; m]);
        let nsolid = std::cell::Cell::new(0i64);
        let candidate = std::cell::Cell::new(0usize);
        let mut items: Vec<usize> = (0..m).collect();
        csharp(&mut items, |x: &usize, y: &usize| {
            let mut val = val.borrow_mut();
            if val[*x] == gas && val[*y] == gas {
                let freeze = if *x == candidate.get() { *x } else { *y };
                val[freeze] = nsolid.get();
                nsolid.set(nsolid.get() + 1);
            }
            if val[*x] == gas {
                candidate.set(*x);
            } else if val[*y] == gas {
                candidate.set(*y);
            }
            val[*x].cmp(&val[*y])
        });
        let killer: Vec<i64> = val.borrow().iter().map(|v| if *v == gas { nsolid.get() } else { *v }).collect();
        check("adversarial order", &killer)?;
        info.label_if(m >= 600, "killer>=600");
        info.comparisons += 2;
    }
    if info.want_sample {
        info.sample = Some(json!({"keys": keys}));
    }
    info.nontrivial = n >= 3 && keys.windows(2).any(|w| w[0] > w[1]);
    info.set_key(&format!("{keys:?}"));
    Ok(())
}

pub fn property() -> Property {
    Property {
        id: "C06",
        subchecks: vec![
            SubCheck {
                name: "mutated-texts",
                rule: "base = rendered G-MAP (realistic or adversarial) | one of the 4 fixture maps trimmed to 80 objects | raw noise of 0/1/2/3/17/200 bytes; then 1-6 line-level mutations (delete/duplicate/swap/shuffle window/move across sections/truncate/insert section header/insert/remove/duplicate/replace a '|'-separated sub-field of a slider path or edge-sound list (type letters, points, garbage)/replace one comma field by a limit token such as NaN, inf, 1e999, 2147483648, 131073, 9001, empty, garbage), CRLF, then a byte/encoding mutation (bit flips, truncation also mid-UTF-8, insertion, one to three UTF-8 BOMs, UTF-16 LE/BE with BOM also odd length, invalid UTF-8). Oracle: from_bytes never panics and fails only with io::Error; on Ok: objects non-decreasing by start time, one sound per object, control points strictly increasing (total_cmp), every number finite and inside its documented clamp (AR/OD/HP/CS, slider multiplier/tick rate, beat_len, slider_velocity, bpm_multiplier, scroll_speed, |x|,|y|<=131072 integral, |t|<=2^31, durations>=0, repeats<=8999, expected_dist in (0,131072], break end>=start); from_bytes == from_str (valid UTF-8) == from_path (1/8 of cases, temp file), errors compared by io::ErrorKind. Non-trivial: >=1 mutation applied and the result decodes to >=2 objects or control points.",
                quick: 40_000,
                thorough: 800_000,
                tape_len: 1700,
                f: case_mutated,
                direct: Some(direct_bytes),
            },
            SubCheck {
                name: "tagged-order-and-sounds",
                rule: "2-60 object lines with unique positions and hit sound = tag(file line), written in a generated file order with deliberate equal-time groups, all four modes. Oracle: every line decodes; for osu/taiko/catch each decoded object still carries the time and sound of its own line and equal-time objects stay in file order (stable); for mania the objects are a sorted permutation of the lines. Non-trivial: the file order is not already sorted.",
                quick: 20_000,
                thorough: 300_000,
                tape_len: 400,
                f: case_tagged,
                direct: None,
            },
            SubCheck {
                name: "sorters-vs-reference",
                rule: "through the verif hook: TandemSorter::new_stable + sort on two parallel vectors (0-80 keys from a 12-value alphabet, so ties are frequent) equals std stable sort_by on the zipped pairs; osu_legacy applied to an already time-sorted list with equal-time groups (its callers' precondition) yields a sorted permutation of its input; csharp::sort (introsort port) on the keys and on a 17-3000 element killer order built by McIlroy's adversary against the implementation itself (forces the heap-sort fallback) yields the sorted permutation. Non-trivial: >=3 keys, not already sorted.",
                quick: 30_000,
                thorough: 400_000,
                tape_len: 100,
                f: case_sorters,
                direct: None,
            },
        ],
        assumptions: &["errors are compared by io::ErrorKind; temp files for from_path live under /verif/.build/tmp and are removed at once"],
        enumerate: None,
    }
}
