//! C09 — stars, pp and all reported attributes are finite and non-negative.

use rosu_pp::{any::DifficultyAttributes, model::mode::GameMode};
use serde_json::json;

use super::{
    common::{calc_for_mode, perf_for_mode, pick_target, strains_for_mode},
    Property,
};
use crate::{
    canon::Canon,
    engine::{CaseInfo, SubCheck},
    gen::{
        diff::{gen_diff, mode_name, DiffProfile, LazerExtra},
        map::{gen_map, map_labels, MapProfile, MapSpec, ObjKind, ObjSpec, ALL_MODES},
        score::gen_consistent_state,
    },
    tape::Tape,
};

/// Fields that may legitimately be negative (only finiteness is required of them).
fn may_be_negative(name: &str) -> bool {
    let leaf = name.rsplit('.').next().unwrap_or(name);
    matches!(leaf, "ar" | "hp" | "od" | "cs" | "great_hit_window" | "ok_hit_window" | "meh_hit_window")
}

fn check_dump(what: &str, d: &crate::canon::Dump) -> Result<(), String> {
    // very long peak lists are dumped as per-chunk digests with a finite/non-negative flag
    for (name, v) in &d.0 {
        if name.ends_with(".finite_nonneg") && matches!(v, crate::canon::Val::B(false)) {
            return Err(format!("{what}: {name} is false (a peak in that chunk is negative or not finite)"));
        }
    }
    for (name, v) in d.floats() {
        if !v.is_finite() {
            return Err(format!("{what}: {name} = {v} is not finite"));
        }
        if v < 0.0 && !may_be_negative(name) {
            return Err(format!("{what}: {name} = {v} is negative"));
        }
    }
    Ok(())
}

/// Degenerate families made explicit.
fn degenerate(t: &mut Tape, spec: &mut MapSpec) -> &'static str {
    let mode = spec.mode;
    let circle = |x: i32, time: f64| ObjSpec { x, y: 192, time, kind: ObjKind::Circle, sound: 0, custom_sample: false };
    match t.below(7) {
        0 => {
            spec.objects.clear();
            "family:empty"
        }
        1 => {
            spec.objects.truncate(1);
            "family:single-object"
        }
        2 => {
            if mode != 3 {
                for o in &mut spec.objects {
                    o.kind = ObjKind::Spinner { end: o.time + 500.0 };
                }
            }
            "family:all-spinners"
        }
        3 => {
            let n = t.range(2, 40) as usize;
            spec.objects = (0..n).map(|_| circle(256, 1000.0)).collect();
            "family:fully-stacked"
        }
        4 => {
            let n = t.range(2, 90) as usize;
            spec.objects = (0..n).map(|i| circle(64 + (i as i32 % 4) * 128, 1000.0 + i as f64 * 11.0)).collect();
            "family:dense"
        }
        5 => {
            let n = t.range(2, 12) as usize;
            spec.objects = (0..n).map(|i| circle(64 + (i as i32 % 4) * 128, i as f64 * 60_000.0)).collect();
            "family:one-per-minute"
        }
        _ => {
            if let Some(first) = spec.objects.first().map(|o| o.time) {
                for o in &mut spec.objects {
                    let shift = first + 3000.0;
                    o.time -= shift;
                    match &mut o.kind {
                        ObjKind::Spinner { end } | ObjKind::Hold { end } => *end -= shift,
                        _ => {}
                    }
                }
            }
            "family:before-zero"
        }
    }
}

fn case(t: &mut Tape, info: &mut CaseInfo) -> Result<(), String> {
    let mut prof = MapProfile::realistic(ALL_MODES, 60);
    prof.size_weights = [3, 5, 2];
    run(t, info, &prof, false)
}

/// Long maps (hundreds to thousands of objects): the length bonuses and per-mod factors of the performance
/// formulas only reach their extreme values there. Lazer-only mods are drawn more often than in G-DIFF.
fn case_long(t: &mut Tape, info: &mut CaseInfo) -> Result<(), String> {
    let mut prof = MapProfile::realistic(ALL_MODES, 2500);
    prof.size_weights = [0, 0, 1];
    prof.long_gaps = false;
    prof.marathon_one_in = 0;
    run(t, info, &prof, true)
}

fn run(t: &mut Tape, info: &mut CaseInfo, prof: &MapProfile, long: bool) -> Result<(), String> {
    let mut spec = gen_map(t, prof);
    // realistic domain: AR/CS/OD/HP within [0, 10], as the editor produces
    for v in [&mut spec.cs, &mut spec.od, &mut spec.hp] {
        *v = v.clamp(0.0, 10.0);
    }
    if spec.mode == 3 {
        spec.cs = spec.cs.clamp(1.0, 10.0);
    }
    if let Some(ar) = spec.ar.as_mut() {
        *ar = ar.clamp(0.0, 10.0);
    }
    let family = if t.chance(1, 4) { degenerate(t, &mut spec) } else { "family:generic" };
    let target = pick_target(t, spec.mode);
    let mut dspec = gen_diff(t, &DiffProfile::realistic(), target);
    if long && t.chance(1, 2) {
        // every mod selectable in the game is a "setting reachable in the game"
        dspec.mods.repr = crate::gen::diff::ModRepr::Lazer;
        let e = match t.below(4) {
            0 => LazerExtra::Acronym("BL"),
            1 => LazerExtra::Acronym("TC"),
            2 => LazerExtra::Classic,
            _ => LazerExtra::Acronym(*t.pick(&crate::gen::diff::LAZER_ACRONYMS)),
        };
        if !dspec.mods.extras.contains(&e) {
            dspec.mods.extras.push(e);
        }
    }
    // "settings reachable in the game": clock rates in [0.5, 2] (DiffProfile::realistic), overrides in [0, 11]
    let map = spec.decode();
    map_labels(&spec, info);
    info.label(family);
    info.label(format!("target={target:?}"));
    if info.want_sample {
        info.sample = Some(json!({"map": spec.sample(), "family": family, "target": mode_name(target), "difficulty": dspec.describe()}));
    }
    let d_full = dspec.build(target);
    let full = calc_for_mode(&d_full, &map, target)?;
    let total = super::common::units(&full);
    // a prefix
    let passed = match t.weighted(&[3, 5, 1, 1]) {
        0 => None,
        1 => Some(t.range(0, i64::from(total)) as u32),
        2 => Some(0),
        _ => Some(total + 1),
    };
    dspec.passed = passed;
    let d = dspec.build(target);
    let attrs = calc_for_mode(&d, &map, target)?;
    check_dump("difficulty attributes", &attrs.dump())?;
    check_dump("strains", &strains_for_mode(&d, &map, target)?.dump())?;
    info.comparisons += 2;

    let lazer_non_classic = dspec.lazer != Some(false)
        && !dspec.mods.has_classic(target);
    let mut states = Vec::new();
    let n_states = t.range(1, 4) as usize;
    let mut any_hit = false;
    for _ in 0..n_states {
        let state = gen_consistent_state(t, &attrs, lazer_non_classic);
        let mut builder = perf_for_mode(&map, target).difficulty(d.clone()).state(state.clone());
        // the state the calculator actually evaluates (a consistent state is kept as is;
        // an all-zero state is only consistent with a prefix of zero objects)
        let state = builder.generate_state();
        let r = builder.calculate();
        let dump = r.dump();
        check_dump(&format!("performance with state {state:?}"), &dump)?;
        info.comparisons += 1;
        let total_hits = match &attrs {
            DifficultyAttributes::Osu(_) => state.total_hits(GameMode::Osu),
            DifficultyAttributes::Taiko(_) => state.total_hits(GameMode::Taiko),
            DifficultyAttributes::Catch(_) => state.total_hits(GameMode::Catch),
            DifficultyAttributes::Mania(_) => state.total_hits(GameMode::Mania),
        };
        if total_hits == 0 {
            if info.want_sample {
                info.sample = Some(json!({"map": spec.sample(), "osu": spec.render(), "family": family, "target": mode_name(target), "difficulty": dspec.describe(), "passed": passed, "state": format!("{state:?}"), "result": format!("{r:?}")}));
            }
            for (name, v) in dump.floats() {
                let leaf = name.rsplit('.').next().unwrap_or(name);
                if !name.starts_with("difficulty.") && leaf.starts_with("pp") && v != 0.0 {
                    return Err(format!("zero-hit play has {name} = {v}"));
                }
            }
            info.label("zero-hit-state");
        } else {
            any_hit = true;
        }
        // accuracy in [0, 1]
        let acc = match &attrs {
            DifficultyAttributes::Osu(a) => {
                use rosu_pp::osu::{OsuScoreOrigin, OsuScoreState};
                let s: OsuScoreState = state.clone().into();
                let origins = [
                    OsuScoreOrigin::Stable,
                    OsuScoreOrigin::WithSliderAcc { max_large_ticks: a.n_large_ticks, max_slider_ends: a.n_sliders },
                    OsuScoreOrigin::WithoutSliderAcc { max_large_ticks: a.n_sliders + a.n_large_ticks, max_small_ticks: a.n_sliders },
                ];
                origins.iter().map(|o| s.accuracy(*o)).collect::<Vec<_>>()
            }
            DifficultyAttributes::Taiko(_) => vec![rosu_pp::taiko::TaikoScoreState::from(state.clone()).accuracy()],
            DifficultyAttributes::Catch(_) => vec![rosu_pp::catch::CatchScoreState::from(state.clone()).accuracy()],
            DifficultyAttributes::Mania(_) => {
                let s = rosu_pp::mania::ManiaScoreState::from(state.clone());
                vec![s.accuracy(true), s.accuracy(false)]
            }
        };
        for a in acc {
            if !(0.0..=1.0).contains(&a) {
                return Err(format!("accuracy {a} outside [0,1] for state {state:?}"));
            }
        }
        states.push(format!("{state:?}"));
    }
    if info.want_sample {
        info.sample = Some(json!({"map": spec.sample(), "family": family, "target": mode_name(target), "difficulty": dspec.describe(), "states": states}));
    }
    info.nontrivial = !spec.objects.is_empty() && any_hit;
    if long {
        info.label_if(spec.objects.len() > 1000, ">1000-objects");
        info.nontrivial = spec.objects.len() > 800 && any_hit;
    }
    info.set_key(&format!("{spec:?}{dspec:?}{target:?}{states:?}"));
    Ok(())
}

/// Pure accuracy check over attribute shapes far larger than any generated map: the per-mode accuracy
/// functions on states consistent with the counts (half of them perfect in every part).
fn case_accuracy_shapes(t: &mut Tape, info: &mut CaseInfo) -> Result<(), String> {
    use rosu_pp::{
        catch::CatchScoreState,
        mania::ManiaScoreState,
        osu::{OsuScoreOrigin, OsuScoreState},
        taiko::TaikoScoreState,
    };
    let big = |t: &mut Tape, small: i64, large: i64| if t.chance(2, 3) { t.range(0, small) as u32 } else { t.range(0, large) as u32 };
    let perfect = t.chance(1, 2);
    let share = |t: &mut Tape, max: u32| if perfect { max } else { t.range(0, i64::from(max)) as u32 };
    let mode = t.below(4);
    info.label(format!("mode={mode}"));
    info.label_if(perfect, "perfect-in-every-part");
    let (desc, accs): (String, Vec<f64>) = match mode {
        0 => {
            let circles = big(t, 40, 3000);
            let sliders = big(t, 40, 2000);
            let ticks = if sliders == 0 { 0 } else { sliders * t.range(0, 6) as u32 + t.range(0, i64::from(sliders)) as u32 };
            let n = circles + sliders;
            let n300 = share(t, n);
            let n100 = if perfect { 0 } else { t.range(0, i64::from(n - n300)) as u32 };
            let n50 = if perfect { 0 } else { t.range(0, i64::from(n - n300 - n100)) as u32 };
            let s = OsuScoreState {
                max_combo: 0,
                large_tick_hits: share(t, ticks + sliders),
                small_tick_hits: share(t, sliders),
                slider_end_hits: share(t, sliders),
                n300,
                n100,
                n50,
                misses: n - n300 - n100 - n50,
            };
            let origins = [
                OsuScoreOrigin::Stable,
                OsuScoreOrigin::WithSliderAcc { max_large_ticks: ticks, max_slider_ends: sliders },
                OsuScoreOrigin::WithoutSliderAcc { max_large_ticks: sliders + ticks, max_small_ticks: sliders },
            ];
            (format!("osu circles={circles} sliders={sliders} ticks={ticks} {s:?}"), origins.iter().map(|o| s.accuracy(*o)).collect())
        }
        1 => {
            let n = big(t, 40, 5000);
            let n300 = share(t, n);
            let n100 = if perfect { 0 } else { t.range(0, i64::from(n - n300)) as u32 };
            let s = TaikoScoreState { max_combo: 0, n300, n100, misses: n - n300 - n100 };
            (format!("taiko {s:?}"), vec![s.accuracy()])
        }
        2 => {
            let (fruits, droplets, tiny) = (big(t, 40, 3000), big(t, 40, 3000), big(t, 40, 6000));
            let f = share(t, fruits);
            let d = share(t, droplets);
            let ti = share(t, tiny);
            let s = CatchScoreState { max_combo: 0, fruits: f, droplets: d, tiny_droplets: ti, tiny_droplet_misses: tiny - ti, misses: fruits - f + droplets - d };
            (format!("catch {s:?}"), vec![s.accuracy()])
        }
        _ => {
            let n = big(t, 40, 6000);
            let n320 = share(t, n);
            let mut rem = n - n320;
            let mut take = |t: &mut Tape| {
                let v = if perfect { 0 } else { t.range(0, i64::from(rem)) as u32 };
                rem -= v;
                v
            };
            let (n300, n200, n100, n50) = (take(t), take(t), take(t), take(t));
            let s = ManiaScoreState { n320, n300, n200, n100, n50, misses: rem };
            (format!("mania {s:?}"), vec![s.accuracy(true), s.accuracy(false)])
        }
    };
    if info.want_sample {
        info.sample = Some(json!({"shape_and_state": desc, "accuracies": accs}));
    }
    for a in &accs {
        info.comparisons += 1;
        if !(0.0..=1.0).contains(a) {
            return Err(format!("accuracy {a:?} outside [0,1]: {desc}"));
        }
    }
    info.nontrivial = accs.iter().any(|a| *a > 0.0);
    info.set_key(&desc);
    Ok(())
}

pub fn property() -> Property {
    Property {
        id: "C09",
        subchecks: vec![SubCheck {
            name: "finite-nonnegative",
            rule: "G-MAP(realistic: times within hours, coordinates near the playfield, AR/CS/OD/HP in [0,10]) with the degenerate families explicit (empty, single object, all spinners, N copies at one position and time, 11 ms spacing, one object per minute, first object before 0) x mods (all representations) x clock rates in [0.5,2] x overrides in [0,11] x a passed_objects prefix x 1-4 score states consistent with the prefix's counts (incl. zero-hit). Oracle: every f64 of difficulty attributes, strains and performance attributes finite; everything except AR/OD/HP/CS/hit-window fields >= 0; accuracy in [0,1] for every origin; zero total hits => every pp field == 0. Non-trivial: non-empty map and a state with >=1 hit.",
            quick: 80_000,
            thorough: 400_000,
            tape_len: 1600,
            f: case,
            direct: None,
        }, SubCheck {
            name: "long-maps",
            rule: "as finite-nonnegative on G-MAP maps of 21..2500 objects without long gaps; in half of the cases the mods are given in the lazer representation with one more lazer-only mod (Blinds, Traceable, Classic or another acronym). Non-trivial: more than 800 objects and a state with >=1 hit.",
            quick: 2_000,
            thorough: 12_000,
            tape_len: 26000,
            f: case_long,
            direct: None,
        }, SubCheck {
            name: "accuracy-shapes",
            rule: "attribute shapes without a map (osu: up to 3000 circles, 2000 sliders, 0-7 ticks per slider; taiko up to 5000 hits; catch up to 3000 fruits / 3000 droplets / 6000 tiny droplets; mania up to 6000 judgements) x a state consistent with the counts, half of them perfect in every part. Oracle: <Mode>ScoreState::accuracy (all three osu! origins, both mania models) lies in [0,1]. Non-trivial: accuracy > 0.",
            quick: 300_000,
            thorough: 3_000_000,
            tape_len: 24,
            f: case_accuracy_shapes,
            direct: None,
        }],
        assumptions: &["AR, OD, HP, CS and hit-window fields may legitimately be negative or exceed 10 under overrides; only finiteness is required of them"],
        enumerate: None,
    }
}
