//! C04 — a performance calculation from cached attributes equals the one from the map.

use rosu_pp::{
    any::{DifficultyAttributes, PerformanceAttributes},
    model::mode::GameMode,
    Performance,
};
use serde_json::json;

use super::{
    common::{calc_for_mode, gen_map_case, perf_for_mode},
    Property,
};
use crate::{
    canon::same,
    engine::{CaseInfo, SubCheck},
    gen::{
        diff::{mode_name, DiffProfile},
        map::{MapProfile, ALL_MODES},
        score::gen_score_spec,
    },
    tape::Tape,
};

fn mode_specific_from_diff<'a>(a: DifficultyAttributes) -> Performance<'a> {
    match a {
        DifficultyAttributes::Osu(a) => Performance::Osu(a.performance()),
        DifficultyAttributes::Taiko(a) => Performance::Taiko(a.performance()),
        DifficultyAttributes::Catch(a) => Performance::Catch(a.performance()),
        DifficultyAttributes::Mania(a) => Performance::Mania(a.performance()),
    }
}

fn mode_specific_from_perf<'a>(a: PerformanceAttributes) -> Performance<'a> {
    match a {
        PerformanceAttributes::Osu(a) => Performance::Osu(a.performance()),
        PerformanceAttributes::Taiko(a) => Performance::Taiko(a.performance()),
        PerformanceAttributes::Catch(a) => Performance::Catch(a.performance()),
        PerformanceAttributes::Mania(a) => Performance::Mania(a.performance()),
    }
}

fn inner_new_from_diff<'a>(a: DifficultyAttributes) -> Performance<'a> {
    use rosu_pp::{catch::CatchPerformance, mania::ManiaPerformance, osu::OsuPerformance, taiko::TaikoPerformance};
    match a {
        DifficultyAttributes::Osu(a) => Performance::Osu(OsuPerformance::new(a)),
        DifficultyAttributes::Taiko(a) => Performance::Taiko(TaikoPerformance::new(a)),
        DifficultyAttributes::Catch(a) => Performance::Catch(CatchPerformance::new(a)),
        DifficultyAttributes::Mania(a) => Performance::Mania(ManiaPerformance::new(a)),
    }
}

fn try_new_from_perf<'a>(a: PerformanceAttributes) -> Option<Performance<'a>> {
    use rosu_pp::{catch::CatchPerformance, mania::ManiaPerformance, osu::OsuPerformance, taiko::TaikoPerformance};
    Some(match &a {
        PerformanceAttributes::Osu(_) => Performance::Osu(OsuPerformance::try_new(a)?),
        PerformanceAttributes::Taiko(_) => Performance::Taiko(TaikoPerformance::try_new(a)?),
        PerformanceAttributes::Catch(_) => Performance::Catch(CatchPerformance::try_new(a)?),
        PerformanceAttributes::Mania(_) => Performance::Mania(ManiaPerformance::try_new(a)?),
    })
}

/// The generic and the mode-specific builder fed with the *mode-specific* attribute structs
/// (`IntoPerformance` / `IntoModePerformance` impls, `From` impls).
fn struct_routes<'a>(d: &DifficultyAttributes, p: &PerformanceAttributes) -> Vec<(&'static str, Performance<'a>)> {
    use rosu_pp::{catch::CatchPerformance, mania::ManiaPerformance, osu::OsuPerformance, taiko::TaikoPerformance};
    macro_rules! routes {
        ($variant:ident, $perf:ident, $dty:ty, $d:expr, $p:expr) => {
            vec![
                ("Performance::new(<Mode>DifficultyAttributes)", Performance::new($d.clone())),
                ("Performance::from(<Mode>DifficultyAttributes)", Performance::from($d.clone())),
                ("Performance::new(<Mode>PerformanceAttributes)", Performance::new($p.clone())),
                ("<Mode>Performance::new(<Mode>PerformanceAttributes)", Performance::$variant($perf::new($p.clone()))),
                ("<Mode>Performance::from(<Mode>DifficultyAttributes)", Performance::$variant($perf::from($d.clone()))),
                ("<Mode>Performance::from(<Mode>PerformanceAttributes)", Performance::$variant($perf::from($p.clone()))),
                ("<Mode>DifficultyAttributes::from(<Mode>PerformanceAttributes)", Performance::new(<$dty>::from($p.clone()))),
            ]
        };
    }
    match (d, p) {
        (DifficultyAttributes::Osu(d), PerformanceAttributes::Osu(p)) => routes!(Osu, OsuPerformance, rosu_pp::osu::OsuDifficultyAttributes, d, p),
        (DifficultyAttributes::Taiko(d), PerformanceAttributes::Taiko(p)) => routes!(Taiko, TaikoPerformance, rosu_pp::taiko::TaikoDifficultyAttributes, d, p),
        (DifficultyAttributes::Catch(d), PerformanceAttributes::Catch(p)) => routes!(Catch, CatchPerformance, rosu_pp::catch::CatchDifficultyAttributes, d, p),
        (DifficultyAttributes::Mania(d), PerformanceAttributes::Mania(p)) => routes!(Mania, ManiaPerformance, rosu_pp::mania::ManiaDifficultyAttributes, d, p),
        _ => Vec::new(),
    }
}

/// The accessor methods of the attribute types agree with the fields they stand for.
fn accessors(d: &DifficultyAttributes, p: &PerformanceAttributes) -> Result<(), String> {
    let eqf = |name: &str, a: f64, b: f64| if a.to_bits() == b.to_bits() || (a.is_nan() && b.is_nan()) { Ok(()) } else { Err(format!("accessor {name}: {a} vs field {b}")) };
    let equ = |name: &str, a: u32, b: u32| if a == b { Ok(()) } else { Err(format!("accessor {name}: {a} vs field {b}")) };
    match (d, p) {
        (DifficultyAttributes::Osu(da), PerformanceAttributes::Osu(pa)) => {
            eqf("PerformanceAttributes::pp", p.pp(), pa.pp)?;
            eqf("OsuPerformanceAttributes::pp", pa.pp(), pa.pp)?;
            eqf("PerformanceAttributes::stars", p.stars(), pa.difficulty.stars)?;
            eqf("OsuPerformanceAttributes::stars", pa.stars(), pa.difficulty.stars)?;
            eqf("DifficultyAttributes::stars", d.stars(), da.stars)?;
            equ("PerformanceAttributes::max_combo", p.max_combo(), pa.difficulty.max_combo)?;
            equ("OsuPerformanceAttributes::max_combo", pa.max_combo(), pa.difficulty.max_combo)?;
            equ("DifficultyAttributes::max_combo", d.max_combo(), da.max_combo)?;
            equ("OsuDifficultyAttributes::max_combo", da.max_combo(), da.max_combo)?;
            equ("OsuPerformanceAttributes::n_objects", pa.n_objects(), pa.difficulty.n_circles + pa.difficulty.n_sliders + pa.difficulty.n_spinners)?;
            equ("OsuDifficultyAttributes::n_objects", da.n_objects(), da.n_circles + da.n_sliders + da.n_spinners)?;
        }
        (DifficultyAttributes::Taiko(da), PerformanceAttributes::Taiko(pa)) => {
            eqf("PerformanceAttributes::pp", p.pp(), pa.pp)?;
            eqf("TaikoPerformanceAttributes::pp", pa.pp(), pa.pp)?;
            eqf("PerformanceAttributes::stars", p.stars(), pa.difficulty.stars)?;
            eqf("TaikoPerformanceAttributes::stars", pa.stars(), pa.difficulty.stars)?;
            eqf("DifficultyAttributes::stars", d.stars(), da.stars)?;
            equ("PerformanceAttributes::max_combo", p.max_combo(), pa.difficulty.max_combo)?;
            equ("TaikoPerformanceAttributes::max_combo", pa.max_combo(), pa.difficulty.max_combo)?;
            equ("DifficultyAttributes::max_combo", d.max_combo(), da.max_combo)?;
            equ("TaikoDifficultyAttributes::max_combo", da.max_combo(), da.max_combo)?;
            if pa.is_convert() != pa.difficulty.is_convert || da.is_convert() != da.is_convert {
                return Err("taiko is_convert() accessor differs from the field".into());
            }
        }
        (DifficultyAttributes::Catch(da), PerformanceAttributes::Catch(pa)) => {
            eqf("PerformanceAttributes::pp", p.pp(), pa.pp)?;
            eqf("CatchPerformanceAttributes::pp", pa.pp(), pa.pp)?;
            eqf("PerformanceAttributes::stars", p.stars(), pa.difficulty.stars)?;
            eqf("CatchPerformanceAttributes::stars", pa.stars(), pa.difficulty.stars)?;
            eqf("DifficultyAttributes::stars", d.stars(), da.stars)?;
            let combo = da.n_fruits + da.n_droplets;
            equ("CatchDifficultyAttributes::max_combo", da.max_combo(), combo)?;
            equ("DifficultyAttributes::max_combo", d.max_combo(), combo)?;
            equ("PerformanceAttributes::max_combo", p.max_combo(), pa.difficulty.n_fruits + pa.difficulty.n_droplets)?;
            equ("CatchPerformanceAttributes::max_combo", pa.max_combo(), pa.difficulty.n_fruits + pa.difficulty.n_droplets)?;
            if pa.is_convert() != pa.difficulty.is_convert || da.is_convert() != da.is_convert {
                return Err("catch is_convert() accessor differs from the field".into());
            }
        }
        (DifficultyAttributes::Mania(da), PerformanceAttributes::Mania(pa)) => {
            eqf("PerformanceAttributes::pp", p.pp(), pa.pp)?;
            eqf("ManiaPerformanceAttributes::pp", pa.pp(), pa.pp)?;
            eqf("PerformanceAttributes::stars", p.stars(), pa.difficulty.stars)?;
            eqf("ManiaPerformanceAttributes::stars", pa.stars(), pa.difficulty.stars)?;
            eqf("DifficultyAttributes::stars", d.stars(), da.stars)?;
            equ("PerformanceAttributes::max_combo", p.max_combo(), pa.difficulty.max_combo)?;
            equ("ManiaPerformanceAttributes::max_combo", pa.max_combo(), pa.difficulty.max_combo)?;
            equ("DifficultyAttributes::max_combo", d.max_combo(), da.max_combo)?;
            equ("ManiaDifficultyAttributes::max_combo", da.max_combo(), da.max_combo)?;
            equ("ManiaPerformanceAttributes::n_objects", pa.n_objects(), pa.difficulty.n_objects)?;
            equ("ManiaDifficultyAttributes::n_objects", da.n_objects(), da.n_objects)?;
            if pa.is_convert() != pa.difficulty.is_convert || da.is_convert() != da.is_convert {
                return Err("mania is_convert() accessor differs from the field".into());
            }
        }
        _ => return Err("difficulty and performance attributes are of different modes".into()),
    }
    Ok(())
}

fn mode_from_ref(map: &rosu_pp::Beatmap, mode: GameMode) -> Performance<'_> {
    use rosu_pp::{catch::CatchPerformance, mania::ManiaPerformance, osu::OsuPerformance, taiko::TaikoPerformance};
    match mode {
        GameMode::Osu => Performance::Osu(OsuPerformance::from(map)),
        GameMode::Taiko => Performance::Taiko(TaikoPerformance::from(map)),
        GameMode::Catch => Performance::Catch(CatchPerformance::from(map)),
        GameMode::Mania => Performance::Mania(ManiaPerformance::from(map)),
    }
}

fn case(t: &mut Tape, info: &mut CaseInfo) -> Result<(), String> {
    // a third of the cases draws settings from the wide domain (overrides up to +-20 and beyond, clock
    // rates 0.01..100): the property quantifies over all Difficulty settings
    let wide = t.chance(1, 3);
    let dprof = if wide { DiffProfile::wide() } else { DiffProfile::realistic() }.passed(0);
    let c = gen_map_case(t, info, &MapProfile::small(ALL_MODES, if wide { 25 } else { 50 }), &dprof, false);
    info.label_if(wide, "wide-settings");
    let score = gen_score_spec(t, c.spec.objects.len() as u32);
    if info.want_sample {
        info.sample = Some(json!({"map": c.spec.sample(), "target": mode_name(c.target), "difficulty": c.dspec.describe(), "score": score.describe()}));
    }
    let run = |p: Performance<'_>| score.apply(p.difficulty(c.d.clone())).calculate();
    let r_map = run(perf_for_mode(&c.map, c.target));
    let a = calc_for_mode(&c.d, &c.map, c.target)?;
    same("embedded difficulty attributes vs one-shot difficulty", &r_map.difficulty_attributes(), &a)?;
    info.comparisons += 1;

    let explicit = c.map.clone().convert(c.target, &c.dspec.mods.build(c.target)).map_err(|e| e.to_string())?;
    let entries: Vec<(&str, Performance<'_>)> = vec![
        ("Performance::new(&explicit_map)", Performance::new(&explicit)),
        ("Performance::new(explicit_map)", Performance::new(explicit.clone())),
        (
            "Performance::new(source_map by value).mods(..).mode_or_ignore(target)",
            Performance::new(c.map.clone()).mods(c.dspec.mods.build(c.target)).mode_or_ignore(c.target),
        ),
        ("explicit_map.performance()", explicit.performance()),
        ("<Mode>Performance::new(source_map by value)", super::common::perf_for_mode_owned(c.map.clone(), c.target, false)),
        ("<Mode>Performance::from(source_map by value)", super::common::perf_for_mode_owned(c.map.clone(), c.target, true)),
        ("<Mode>Performance::from(&source_map)", mode_from_ref(&c.map, c.target)),
        ("Performance::new(DifficultyAttributes)", Performance::new(a.clone())),
        ("Performance::from(DifficultyAttributes)", Performance::from(a.clone())),
        ("DifficultyAttributes::performance()", a.clone().performance()),
        ("<Mode>DifficultyAttributes::performance()", mode_specific_from_diff(a.clone())),
        ("<Mode>Performance::new(attrs)", inner_new_from_diff(a.clone())),
        ("Performance::new(PerformanceAttributes)", Performance::new(r_map.clone())),
        ("PerformanceAttributes::performance()", r_map.clone().performance()),
        ("<Mode>PerformanceAttributes::performance()", mode_specific_from_perf(r_map.clone())),
        ("<Mode>Performance::try_new(PerformanceAttributes)", try_new_from_perf(r_map.clone()).ok_or("try_new returned None for its own mode")?),
    ];
    for (name, p) in entries.into_iter().chain(struct_routes(&a, &r_map)) {
        let r = run(p);
        info.comparisons += 1;
        same(&format!("{name} vs map path"), &r, &r_map)?;
    }
    accessors(&a, &r_map)?;
    same("DifficultyAttributes::from(PerformanceAttributes) vs embedded difficulty", &DifficultyAttributes::from(r_map.clone()), &a)?;
    info.comparisons += 2;
    // the same settings supplied through the individual Performance setters (generated order, mods not
    // necessarily first), on the map path and on the attribute path
    let insp = c.d.clone().inspect();
    let mut order: Vec<u8> = (0..9).collect();
    for i in (1..order.len()).rev() {
        let j = t.below_usize(i + 1);
        order.swap(i, j);
    }
    let via_setters = |mut p: Performance<'_>| {
        for k in &order {
            p = match k {
                0 => p.mods(insp.mods.clone()),
                1 => insp.passed_objects.map_or(p.clone(), |n| p.clone().passed_objects(n)),
                2 => insp.clock_rate.map_or(p.clone(), |v| p.clone().clock_rate(v)),
                3 => insp.ar.map_or(p.clone(), |v| p.clone().ar(v.value, v.with_mods)),
                4 => insp.cs.map_or(p.clone(), |v| p.clone().cs(v.value, v.with_mods)),
                5 => insp.hp.map_or(p.clone(), |v| p.clone().hp(v.value, v.with_mods)),
                6 => insp.od.map_or(p.clone(), |v| p.clone().od(v.value, v.with_mods)),
                7 => insp.hardrock_offsets.map_or(p.clone(), |v| p.clone().hardrock_offsets(v)),
                _ => insp.lazer.map_or(p.clone(), |v| p.clone().lazer(v)),
            };
        }
        score.apply(p).calculate()
    };
    // ar/cs are documented as irrelevant for taiko and mania, so the setter legs are equivalent there too
    same("settings through individual setters (map path) vs Performance::difficulty", &via_setters(perf_for_mode(&c.map, c.target)), &r_map)?;
    same("settings through individual setters (attribute path) vs map path", &via_setters(Performance::new(a.clone())), &r_map)?;
    info.comparisons += 2;
    // map path entered through the osu! builder with the score given *before* the switch to the target mode
    // (setters that mean different things in the two modes are left out) vs the attribute path
    if c.map.mode == GameMode::Osu && !c.map.is_convert {
        let mut carried = score.clone();
        carried.n_katu = None;
        carried.n_geki = None;
        carried.large_tick_hits = None;
        carried.small_tick_hits = None;
        carried.slider_end_hits = None;
        carried.state = None;
        let from_attrs = carried.apply(Performance::new(a.clone()).difficulty(c.d.clone())).calculate();
        let switched = carried.apply(Performance::new(&c.map).difficulty(c.d.clone())).mode_or_ignore(c.target).calculate();
        same("score set on the osu! builder, then mode_or_ignore(target) (map path) vs attribute path", &switched, &from_attrs)?;
        if let Ok(p) = carried.apply(Performance::new(c.map.clone()).difficulty(c.d.clone())).try_mode(c.target) {
            same("score set on the osu! builder, then try_mode(target) (map path) vs attribute path", &p.calculate(), &from_attrs)?;
        } else {
            return Err("try_mode refused a possible conversion".into());
        }
        info.comparisons += 2;
    }
    // a refused mode switch leaves the map path untouched: an osu! map flagged as a convert cannot be converted,
    // so the calculator that was asked to switch must give the result of the one that was not
    if c.map.mode == GameMode::Osu {
        let mut flagged = c.map.clone();
        flagged.is_convert = true;
        let p = Performance::new(&flagged).difficulty(c.d.clone());
        let plain = score.apply(p.clone()).calculate();
        for other in [GameMode::Taiko, GameMode::Catch, GameMode::Mania] {
            let asked = score.apply(p.clone().mode_or_ignore(other)).calculate();
            same(&format!("map path after a refused mode_or_ignore({other:?}) vs map path"), &asked, &plain)?;
            if let Err(back) = p.clone().try_mode(other) {
                same(&format!("map path after a refused try_mode({other:?}) vs map path"), &score.apply(back).calculate(), &plain)?;
            } else {
                return Err("try_mode converted a map flagged as a convert".into());
            }
            info.comparisons += 2;
        }
    }
    // mode-specific try_new on a foreign mode must refuse
    if let DifficultyAttributes::Taiko(_) = &a {
        if rosu_pp::osu::OsuPerformance::try_new(a.clone()).is_some() {
            return Err("OsuPerformance::try_new accepted taiko attributes".into());
        }
    }
    info.label_if(c.dspec.passed.is_some(), "passed_objects");
    info.nontrivial = !score.is_default() && r_map.pp() > 0.0 && !c.dspec.is_default();
    info.set_key(&format!("{:?}{:?}{:?}{score:?}", c.spec, c.dspec, c.target));
    Ok(())
}

pub fn property() -> Property {
    Property {
        id: "C04",
        subchecks: vec![SubCheck {
            name: "attrs-path-vs-map-path",
            rule: "G-MAP (all modes + converts, <=50 objects) x G-DIFF incl. passed_objects (0..N+3, u32::MAX) x score builder spec (each of accuracy/combo/misses/every hit-result setter independently absent or 0..N+3, occasionally >>N, both priorities). Oracle: result of the mode-specific builder on the map == result from 12 other entry points (generic Performance::new on the explicitly converted map by ref/value, map.performance(), the mode-specific builder given the source map by value or through From, Performance::new/from(DifficultyAttributes), attrs.performance(), mode-specific attrs.performance()/Performance::new(attrs), the same for PerformanceAttributes incl. try_new; the generic and mode-specific new/from fed with the mode-specific attribute structs; <Mode>DifficultyAttributes::from(<Mode>PerformanceAttributes)); accessor methods (pp, stars, max_combo, n_objects, is_convert) agree with the fields with the same Difficulty and score setters applied, plus the same settings supplied through the individual Performance setters in a generated order on both the map and the attribute path; for osu! sources the score set on the osu! builder before try_mode / mode_or_ignore(target) vs the attribute path; embedded difficulty == one-shot difficulty. Non-trivial: score spec non-default, pp>0, settings non-default.",
            quick: 80_000,
            thorough: 400_000,
            tape_len: 1500,
            f: case,
            direct: None,
        }],
        assumptions: &["the same Difficulty (mods, passed_objects, lazer, overrides) is supplied again on the attribute path, as the documentation requires"],
        enumerate: None,
    }
}
