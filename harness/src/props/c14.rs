//! C14 — reported object counts and max combo account for exactly the objects of the map.

use rosu_pp::{
    any::DifficultyAttributes,
    model::{hit_object::HitObjectKind, mode::GameMode},
};
use serde_json::json;

use super::{
    common::{calc_for_mode, gen_map_case, units},
    Property,
};
use crate::{
    canon::same,
    engine::{CaseInfo, SubCheck},
    gen::{
        diff::{mode_name, DiffProfile, LazerExtra},
        map::{MapProfile, ALL_MODES},
    },
    tape::Tape,
};

fn case(t: &mut Tape, info: &mut CaseInfo) -> Result<(), String> {
    let c = gen_map_case(t, info, &MapProfile::small(ALL_MODES, 40), &DiffProfile::realistic(), false);
    if info.want_sample {
        info.sample = Some(json!({"map": c.spec.sample(), "target": mode_name(c.target), "difficulty": c.dspec.describe()}));
    }
    // an eighth of the maps is shifted in time by a fraction of a millisecond after decoding (public fields;
    // the decoder only yields what the text spells, a caller may hand over anything)
    let mut c = c;
    if t.chance(1, 8) {
        let delta = *t.pick(&[0.1, 0.25, -0.3, 1000.1, 0.7]);
        for h in c.map.hit_objects.iter_mut() {
            h.start_time += delta;
        }
        for tp in c.map.timing_points.iter_mut() {
            tp.time += delta;
        }
        info.label("time-shifted-by-a-fraction");
    }
    let mods = c.dspec.mods.build(c.target);
    let explicit = c.map.clone().convert(c.target, &mods).map_err(|e| e.to_string())?;
    let objs = &explicit.hit_objects;
    let len = objs.len();
    let extras = c.dspec.mods.effective_extras(c.target);
    let hold_off = extras.contains(&LazerExtra::HoldOff) && c.target == GameMode::Mania;
    let invert = extras.contains(&LazerExtra::Invert) && c.target == GameMode::Mania;
    info.label_if(hold_off, "hold-off");
    info.label_if(invert, "invert");

    let full = calc_for_mode(&c.d, &c.map, c.target)?;
    let total_units = units(&full);
    // is_convert flag
    let flag = match &full {
        DifficultyAttributes::Osu(_) => None,
        DifficultyAttributes::Taiko(a) => Some(a.is_convert),
        DifficultyAttributes::Catch(a) => Some(a.is_convert),
        DifficultyAttributes::Mania(a) => Some(a.is_convert),
    };
    if let Some(f) = flag {
        if f != explicit.is_convert {
            return Err(format!("is_convert={f} but the map {} converted", if explicit.is_convert { "was" } else { "was not" }));
        }
    }
    // full-map recount
    match &full {
        DifficultyAttributes::Osu(a) => {
            let circles = objs.iter().filter(|h| h.is_circle()).count() as u32;
            let sliders = objs.iter().filter(|h| h.is_slider()).count() as u32;
            let spinners = objs.iter().filter(|h| h.is_spinner() || h.is_hold_note()).count() as u32;
            if (a.n_circles, a.n_sliders, a.n_spinners) != (circles, sliders, spinners) {
                return Err(format!("osu counts {:?} vs recount {:?}", (a.n_circles, a.n_sliders, a.n_spinners), (circles, sliders, spinners)));
            }
            if a.max_combo < a.n_objects() {
                return Err(format!("osu max_combo {} below object count {}", a.max_combo, a.n_objects()));
            }
        }
        DifficultyAttributes::Taiko(a) => {
            let hits = objs.iter().filter(|h| h.is_circle()).count() as u32;
            if a.max_combo != hits {
                return Err(format!("taiko max_combo {} vs {} hits in the map", a.max_combo, hits));
            }
        }
        DifficultyAttributes::Catch(a) => {
            let fruits: usize = objs
                .iter()
                .map(|h| match &h.kind {
                    HitObjectKind::Circle => 1,
                    HitObjectKind::Slider(s) => s.span_count() + 1,
                    _ => 0,
                })
                .sum();
            if a.n_fruits as usize != fruits {
                return Err(format!("catch n_fruits {} vs circles + slider heads/repeats/tails {}", a.n_fruits, fruits));
            }
        }
        DifficultyAttributes::Mania(a) => {
            // recount on the converted map after the documented HoldOff (every hold note becomes a note) and
            // Invert (per column, every gap between consecutive note/hold-start/hold-end times becomes a hold
            // note) transformations, applied in that order
            let mut recount = (len as u32, objs.iter().filter(|h| !h.is_circle()).count() as u32);
            if hold_off {
                // objects that are neither notes nor hold notes do not survive HoldOff
                recount = (objs.iter().filter(|h| h.is_circle() || h.is_hold_note()).count() as u32, 0);
            }
            if invert {
                let cs = explicit.cs;
                let columns = cs as usize;
                let mut locations = vec![0u32; columns.max(1)];
                for h in objs.iter() {
                    let col = ((h.pos.x / (512.0 / cs)).floor().min(cs - 1.0)) as usize;
                    if col < columns {
                        locations[col] += match (h.is_circle(), h.is_hold_note()) {
                            (true, _) => 1,
                            (_, true) => 2 - u32::from(hold_off),
                            _ => 0,
                        };
                    }
                }
                let n: u32 = locations.iter().take(columns).map(|l| l.saturating_sub(1)).sum();
                recount = (n, n);
            }
            if (a.n_objects, a.n_hold_notes) != recount {
                return Err(format!(
                    "mania (objects, holds) {:?} vs recount {recount:?} (HoldOff: {hold_off}, Invert: {invert})",
                    (a.n_objects, a.n_hold_notes)
                ));
            }
            if hold_off && !invert && a.n_hold_notes != 0 {
                return Err(format!("mania HoldOff leaves {} hold notes", a.n_hold_notes));
            }
            if a.max_combo < a.n_objects {
                return Err(format!("mania max_combo {} below n_objects {}", a.max_combo, a.n_objects));
            }
        }
    }
    info.comparisons += 1;
    // handing the calculator the already converted map must give the same attributes (incl. the flag)
    let on_explicit = c.d.calculate(&explicit);
    same("calculate(&explicitly converted map) vs calculate_for_mode on the source", &on_explicit, &full)?;
    info.comparisons += 1;

    // the gradual calculator counts the same map: max combo never decreases from value to value and the
    // last value carries the full-map counts
    if c.dspec.passed.is_none() && !super::common::skip_open_taiko(&c.map, &c.d, c.target, info)? {
        let g = rosu_pp::GradualDifficulty::new_with_mode(c.d.clone(), &c.map, c.target).map_err(|e| format!("gradual ctor: {e}"))?;
        let mut prev_combo = 0u32;
        let mut last = None;
        for (i, v) in g.enumerate() {
            let combo = v.max_combo();
            if combo < prev_combo {
                return Err(format!("gradual value #{}: max combo {combo} below the previous value's {prev_combo}", i + 1));
            }
            prev_combo = combo;
            last = Some(v);
        }
        if let Some(last) = last {
            same("last gradual value vs full calculation (counts and all)", &last, &full)?;
        }
        info.comparisons += 1;
    }

    // every n from 0 beyond the total
    let mut prev: Option<DifficultyAttributes> = None;
    let upto = total_units + 3;
    let mut ns: Vec<u32> = (0..=upto).collect();
    ns.push(u32::MAX);
    ns.push(total_units.saturating_mul(2) + 7);
    let mania_total_before_transform = len as u32;
    for n in ns {
        // (every other limit goes through the specification, whose setter order varies: passed_objects before or
        // after mods)
        let d_n = if n % 2 == 0 {
            c.d.clone().passed_objects(n)
        } else {
            let mut ds = c.dspec.clone();
            ds.passed = Some(n);
            ds.build(c.target)
        };
        let a = calc_for_mode(&d_n, &c.map, c.target)?;
        info.comparisons += 1;
        let u = units(&a);
        let expect = n.min(total_units);
        if u != expect {
            return Err(format!("passed_objects({n}): counted {u}, expected min(n, total={total_units})"));
        }
        match &a {
            DifficultyAttributes::Osu(a) => {
                let k = (n as usize).min(len);
                let circles = objs[..k].iter().filter(|h| h.is_circle()).count() as u32;
                let sliders = objs[..k].iter().filter(|h| h.is_slider()).count() as u32;
                if a.n_circles != circles || a.n_sliders != sliders {
                    return Err(format!("passed_objects({n}): osu circles/sliders {}/{} vs prefix recount {circles}/{sliders}", a.n_circles, a.n_sliders));
                }
            }
            DifficultyAttributes::Mania(a) if !invert && !hold_off => {
                let k = (n as usize).min(len);
                let holds = objs[..k].iter().filter(|h| !h.is_circle()).count() as u32;
                if a.n_hold_notes != holds {
                    return Err(format!("passed_objects({n}): mania n_hold_notes {} vs prefix recount {holds}", a.n_hold_notes));
                }
            }
            _ => {}
        }
        if let Some(p) = &prev {
            // monotone counts
            let mono = |name: &str, a: u32, b: u32| if b < a { Err(format!("passed_objects({n}): {name} decreased {a} -> {b}")) } else { Ok(()) };
            mono("units", units(p), u)?;
            mono("max_combo", p.max_combo(), a.max_combo())?;
            match (p, &a) {
                (DifficultyAttributes::Osu(x), DifficultyAttributes::Osu(y)) => {
                    mono("n_circles", x.n_circles, y.n_circles)?;
                    mono("n_sliders", x.n_sliders, y.n_sliders)?;
                    mono("n_spinners", x.n_spinners, y.n_spinners)?;
                    mono("n_large_ticks", x.n_large_ticks, y.n_large_ticks)?;
                }
                (DifficultyAttributes::Catch(x), DifficultyAttributes::Catch(y)) => {
                    mono("n_fruits", x.n_fruits, y.n_fruits)?;
                    mono("n_droplets", x.n_droplets, y.n_droplets)?;
                    mono("n_tiny_droplets", x.n_tiny_droplets, y.n_tiny_droplets)?;
                }
                (DifficultyAttributes::Mania(x), DifficultyAttributes::Mania(y)) => {
                    mono("n_hold_notes", x.n_hold_notes, y.n_hold_notes)?;
                }
                _ => {}
            }
        }
        if n > total_units && n > mania_total_before_transform {
            same(&format!("passed_objects({n}) beyond the total vs unlimited"), &a, &full)?;
        }
        if n <= upto {
            prev = Some(a);
        }
    }
    let interesting_obj = explicit.hit_objects.iter().any(|h| match &h.kind {
        HitObjectKind::Slider(s) => s.repeats >= 1,
        HitObjectKind::Circle => false,
        _ => true,
    });
    info.nontrivial = interesting_obj && total_units >= 2;
    info.set_key(&format!("{:?}{:?}{:?}", c.spec, c.dspec, c.target));
    Ok(())
}

pub fn property() -> Property {
    Property {
        id: "C14",
        subchecks: vec![SubCheck {
            name: "counts-and-prefixes",
            rule: "G-MAP (all modes + converts, <=40 objects) x G-DIFF (HR/EZ, lazer mirror variants, key mods, HO, IN, Random) x every n in 0..total+3 plus u32::MAX and 2*total+7. Oracle: independent recount from the public hit_objects of the explicitly converted map (osu circles/sliders/spinners(+holds) per prefix; taiko max_combo = #hits; mania n_objects/n_hold_notes per prefix and, for the full map, after modelling HoldOff (holds become notes) and Invert (per column: #locations-1 hold notes) in that order; catch n_fruits = circles + sum(span_count+1)); counted units == min(n,total); every count non-decreasing in n; n > total => all fields same-value-equal to the unlimited result; is_convert flag iff converted; the gradual calculator's max combo never decreases and its last value equals the full calculation (rare hours-long hold notes push the combo past 65535; an eighth of the maps is shifted by a fraction of a millisecond after decoding). Non-trivial: a slider with >=1 repeat or a hold/spinner, and total >= 2.",
            quick: 20_000,
            thorough: 100_000,
            tape_len: 1400,
            f: case,
            direct: None,
        }],
        assumptions: &["under lazer Invert the per-prefix hold-note recount is not attempted (relations only)"],
        enumerate: None,
    }
}
