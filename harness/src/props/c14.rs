//! C14 — reported object counts and max combo account for exactly the objects of the map.

use rosu_pp::{
    any::DifficultyAttributes,
    model::{hit_object::HitObjectKind, mode::GameMode},
};
use serde_json::json;

use super::{
    common::{calc_for_mode, gen_map_case, units},
    Property,
};
use crate::{
    canon::same,
    engine::{CaseInfo, SubCheck},
    gen::{
        diff::{mode_name, DiffProfile, LazerExtra},
        map::{MapProfile, ALL_MODES},
    },
    tape::Tape,
};

fn case(t: &mut Tape, info: &mut CaseInfo) -> Result<(), String> {
    let c = gen_map_case(t, info, &MapProfile::small(ALL_MODES, 40), &DiffProfile::realistic(), false);
    if info.want_sample {
        info.sample = Some(json!({"map": c.spec.sample(), "target": mode_name(c.target), "difficulty": c.dspec.describe()}));
    }
    let mods = c.dspec.mods.build(c.target);
    let explicit = c.map.clone().convert(c.target, &mods).map_err(|e| e.to_string())?;
    let objs = &explicit.hit_objects;
    let len = objs.len();
    let extras = c.dspec.mods.effective_extras(c.target);
    let hold_off = extras.contains(&LazerExtra::HoldOff) && c.target == GameMode::Mania;
    let invert = extras.contains(&LazerExtra::Invert) && c.target == GameMode::Mania;
    info.label_if(hold_off, "hold-off");
    info.label_if(invert, "invert");

    let full = calc_for_mode(&c.d, &c.map, c.target)?;
    let total_units = units(&full);
    // is_convert flag
    let flag = match &full {
        DifficultyAttributes::Osu(_) => None,
        DifficultyAttributes::Taiko(a) => Some(a.is_convert),
        DifficultyAttributes::Catch(a) => Some(a.is_convert),
        DifficultyAttributes::Mania(a) => Some(a.is_convert),
    };
    if let Some(f) = flag {
        if f != explicit.is_convert {
            return Err(format!("is_convert={f} but the map {} converted", if explicit.is_convert { "was" } else { "was not" }));
        }
    }
    // full-map recount
    match &full {
        DifficultyAttributes::Osu(a) => {
            let circles = objs.iter().filter(|h| h.is_circle()).count() as u32;
            let sliders = objs.iter().filter(|h| h.is_slider()).count() as u32;
            let spinners = objs.iter().filter(|h| h.is_spinner() || h.is_hold_note()).count() as u32;
            if (a.n_circles, a.n_sliders, a.n_spinners) != (circles, sliders, spinners) {
                return Err(format!("osu counts {:?} vs recount {:?}", (a.n_circles, a.n_sliders, a.n_spinners), (circles, sliders, spinners)));
            }
            if a.max_combo < a.n_objects() {
                return Err(format!("osu max_combo {} below object count {}", a.max_combo, a.n_objects()));
            }
        }
        DifficultyAttributes::Taiko(a) => {
            let hits = objs.iter().filter(|h| h.is_circle()).count() as u32;
            if a.max_combo != hits {
                return Err(format!("taiko max_combo {} vs {} hits in the map", a.max_combo, hits));
            }
        }
        DifficultyAttributes::Catch(a) => {
            let fruits: usize = objs
                .iter()
                .map(|h| match &h.kind {
                    HitObjectKind::Circle => 1,
                    HitObjectKind::Slider(s) => s.span_count() + 1,
                    _ => 0,
                })
                .sum();
            if a.n_fruits as usize != fruits {
                return Err(format!("catch n_fruits {} vs circles + slider heads/repeats/tails {}", a.n_fruits, fruits));
            }
        }
        DifficultyAttributes::Mania(a) => {
            if !invert && !hold_off {
                let holds = objs.iter().filter(|h| !h.is_circle()).count() as u32;
                if (a.n_objects, a.n_hold_notes) != (len as u32, holds) {
                    return Err(format!("mania (objects, holds) {:?} vs recount {:?}", (a.n_objects, a.n_hold_notes), (len as u32, holds)));
                }
            }
            if hold_off && !invert && a.n_hold_notes != 0 {
                return Err(format!("mania HoldOff leaves {} hold notes", a.n_hold_notes));
            }
            if a.max_combo < a.n_objects {
                return Err(format!("mania max_combo {} below n_objects {}", a.max_combo, a.n_objects));
            }
        }
    }
    info.comparisons += 1;
    // handing the calculator the already converted map must give the same attributes (incl. the flag)
    let on_explicit = c.d.calculate(&explicit);
    same("calculate(&explicitly converted map) vs calculate_for_mode on the source", &on_explicit, &full)?;
    info.comparisons += 1;

    // every n from 0 beyond the total
    let mut prev: Option<DifficultyAttributes> = None;
    let upto = total_units + 3;
    let mut ns: Vec<u32> = (0..=upto).collect();
    ns.push(u32::MAX);
    ns.push(total_units.saturating_mul(2) + 7);
    let mania_total_before_transform = len as u32;
    for n in ns {
        let a = calc_for_mode(&c.d.clone().passed_objects(n), &c.map, c.target)?;
        info.comparisons += 1;
        let u = units(&a);
        let expect = n.min(total_units);
        if u != expect {
            return Err(format!("passed_objects({n}): counted {u}, expected min(n, total={total_units})"));
        }
        match &a {
            DifficultyAttributes::Osu(a) => {
                let k = (n as usize).min(len);
                let circles = objs[..k].iter().filter(|h| h.is_circle()).count() as u32;
                let sliders = objs[..k].iter().filter(|h| h.is_slider()).count() as u32;
                if a.n_circles != circles || a.n_sliders != sliders {
                    return Err(format!("passed_objects({n}): osu circles/sliders {}/{} vs prefix recount {circles}/{sliders}", a.n_circles, a.n_sliders));
                }
            }
            DifficultyAttributes::Mania(a) if !invert && !hold_off => {
                let k = (n as usize).min(len);
                let holds = objs[..k].iter().filter(|h| !h.is_circle()).count() as u32;
                if a.n_hold_notes != holds {
                    return Err(format!("passed_objects({n}): mania n_hold_notes {} vs prefix recount {holds}", a.n_hold_notes));
                }
            }
            _ => {}
        }
        if let Some(p) = &prev {
            // monotone counts
            let mono = |name: &str, a: u32, b: u32| if b < a { Err(format!("passed_objects({n}): {name} decreased {a} -> {b}")) } else { Ok(()) };
            mono("units", units(p), u)?;
            mono("max_combo", p.max_combo(), a.max_combo())?;
            match (p, &a) {
                (DifficultyAttributes::Osu(x), DifficultyAttributes::Osu(y)) => {
                    mono("n_circles", x.n_circles, y.n_circles)?;
                    mono("n_sliders", x.n_sliders, y.n_sliders)?;
                    mono("n_spinners", x.n_spinners, y.n_spinners)?;
                    mono("n_large_ticks", x.n_large_ticks, y.n_large_ticks)?;
                }
                (DifficultyAttributes::Catch(x), DifficultyAttributes::Catch(y)) => {
                    mono("n_fruits", x.n_fruits, y.n_fruits)?;
                    mono("n_droplets", x.n_droplets, y.n_droplets)?;
                    mono("n_tiny_droplets", x.n_tiny_droplets, y.n_tiny_droplets)?;
                }
                (DifficultyAttributes::Mania(x), DifficultyAttributes::Mania(y)) => {
                    mono("n_hold_notes", x.n_hold_notes, y.n_hold_notes)?;
                }
                _ => {}
            }
        }
        if n > total_units && n > mania_total_before_transform {
            same(&format!("passed_objects({n}) beyond the total vs unlimited"), &a, &full)?;
        }
        if n <= upto {
            prev = Some(a);
        }
    }
    let interesting_obj = explicit.hit_objects.iter().any(|h| match &h.kind {
        HitObjectKind::Slider(s) => s.repeats >= 1,
        HitObjectKind::Circle => false,
        _ => true,
    });
    info.nontrivial = interesting_obj && total_units >= 2;
    info.set_key(&format!("{:?}{:?}{:?}", c.spec, c.dspec, c.target));
    Ok(())
}

pub fn property() -> Property {
    Property {
        id: "C14",
        subchecks: vec![SubCheck {
            name: "counts-and-prefixes",
            rule: "G-MAP (all modes + converts, <=40 objects) x G-DIFF (HR/EZ, lazer mirror variants, key mods, HO, IN, Random) x every n in 0..total+3 plus u32::MAX and 2*total+7. Oracle: independent recount from the public hit_objects of the explicitly converted map (osu circles/sliders/spinners(+holds) per prefix; taiko max_combo = #hits; mania n_objects/n_hold_notes per prefix, HO => 0 holds; catch n_fruits = circles + sum(span_count+1)); counted units == min(n,total); every count non-decreasing in n; n > total => all fields same-value-equal to the unlimited result; is_convert flag iff converted. Non-trivial: a slider with >=1 repeat or a hold/spinner, and total >= 2.",
            quick: 20_000,
            thorough: 100_000,
            tape_len: 1400,
            f: case,
            direct: None,
        }],
        assumptions: &["under lazer Invert the per-prefix hold-note recount is not attempted (relations only)"],
        enumerate: None,
    }
}
