//! C17 — the attribute builder is self-consistent and matches what calculators use.

use rosu_pp::{
    any::DifficultyAttributes,
    model::{beatmap::BeatmapAttributesBuilder, mode::GameMode},
};
use serde_json::json;

use super::{
    common::{calc_for_mode, gen_map_case},
    Property,
};
use crate::{
    canon::{same, Canon},
    engine::{CaseInfo, SubCheck},
    gen::{
        diff::{mode_name, mode_of, DiffProfile, LazerExtra, ModRepr, ModsSpec, DT, EZ, HR, HT},
        map::{MapProfile, ALL_MODES},
    },
    tape::Tape,
};

const EPS: f64 = 1e-9;

fn base(mode: GameMode, is_convert: bool, mods: &ModsSpec, clock: Option<f64>) -> BeatmapAttributesBuilder {
    let mut b = BeatmapAttributesBuilder::new().mode(mode, is_convert).mods(mods.build(mode));
    if let Some(c) = clock {
        b = b.clock_rate(c);
    }
    b
}

fn case_grid(t: &mut Tape, info: &mut CaseInfo) -> Result<(), String> {
    let mode = mode_of(t.below(4) as u8);
    let is_convert = mode != GameMode::Osu && t.coin();
    let bits = *t.pick(&[0u32, HR, EZ, DT, HT, HR | DT, EZ | HT, HR | HT, EZ | DT]);
    let lazer_da = t.chance(1, 5);
    let mods = if lazer_da {
        let v = |t: &mut Tape| if t.coin() { Some(f64::from((t.range(0, 44) as f32) * 0.25)) } else { None };
        ModsSpec { bits, repr: ModRepr::Lazer, extras: vec![LazerExtra::DifficultyAdjust(v(t), v(t), v(t), v(t))] }
    } else {
        ModsSpec { bits, repr: *t.pick(&[ModRepr::U32, ModRepr::Intermode, ModRepr::Lazer]), extras: Vec::new() }
    };
    let clock = match t.weighted(&[3, 3, 2, 1]) {
        0 => None,
        1 => Some(*t.pick(&[1.0, 1.5, 0.75, 2.0, 0.5, 1.37])),
        2 => Some(t.float(0.5, 2.0)),
        _ => Some(*t.pick(&[0.01, 100.0, 0.1, 10.0, 33.3])),
    };
    let value = |t: &mut Tape| -> f32 {
        match t.weighted(&[6, 3, 1]) {
            0 => (t.range(0, 40) as f32) * 0.25,
            1 => (t.range(-80, 80) as f32) * 0.25,
            _ => t.float(-20.0, 20.0) as f32,
        }
    };
    let (ar, od, cs, hp) = (value(t), value(t), value(t), value(t));
    // one flag per attribute: they are independent settings (and the code paths differ per attribute)
    let (with_ar, with_od, with_cs, with_hp) = match t.weighted(&[2, 2, 4]) {
        0 => (false, false, false, false),
        1 => (true, true, true, true),
        _ => (t.coin(), t.coin(), t.coin(), t.coin()),
    };
    let with_mods = with_ar && with_od && with_cs && with_hp;
    let none_with_mods = !(with_ar || with_od || with_cs || with_hp);
    let full = |m: &ModsSpec, c: Option<f64>, ar: f32, od: f32| base(mode, is_convert, m, c).ar(ar, with_ar).od(od, with_od).cs(cs, with_cs).hp(hp, with_hp);
    let b = full(&mods, clock, ar, od);
    info.label(format!("mode={mode:?}"));
    info.label(if with_mods { "with_mods=all-true" } else if none_with_mods { "with_mods=all-false" } else { "with_mods=mixed" });
    info.label_if(lazer_da, "lazer-DA");
    info.label_if(clock.is_some(), "custom-clock");
    if info.want_sample {
        info.sample = Some(json!({"mode": mode_name(mode), "is_convert": is_convert, "mods": mods.describe(), "clock_rate": clock, "ar": ar, "od": od, "cs": cs, "hp": hp, "with_mods(ar,od,cs,hp)": [with_ar, with_od, with_cs, with_hp]}));
    }
    let built = b.build();
    let hw = b.hit_windows();
    // self consistency
    same("build().hit_windows vs hit_windows()", &built.hit_windows, &hw)?;
    info.comparisons += 1;
    for (name, v) in built.dump().floats() {
        if !v.is_finite() {
            return Err(format!("build(): {name} = {v} not finite"));
        }
    }
    let expected_rate = clock.unwrap_or(if bits & DT != 0 { 1.5 } else if bits & HT != 0 { 0.75 } else { 1.0 });
    if built.clock_rate != expected_rate {
        return Err(format!("build().clock_rate = {} expected {expected_rate}", built.clock_rate));
    }
    let in_unit = |v: f32| (0.0..=10.0).contains(&v);
    // round trip of values supplied with with_mods = true
    {
        if with_ar && in_unit(ar) && (built.ar - f64::from(ar)).abs() > EPS {
            return Err(format!("AR {ar} supplied with_mods=true is reported as {}", built.ar));
        }
        if with_od && in_unit(od) && (built.od - f64::from(od)).abs() > EPS {
            return Err(format!("OD {od} supplied with_mods=true is reported as {}", built.od));
        }
        if with_cs && in_unit(cs) && (built.cs - f64::from(cs)).abs() > EPS {
            return Err(format!("CS {cs} supplied with_mods=true is reported as {}", built.cs));
        }
        if with_hp && in_unit(hp) && (built.hp - f64::from(hp)).abs() > EPS {
            return Err(format!("HP {hp} supplied with_mods=true is reported as {}", built.hp));
        }
        info.comparisons += 4;
    }
    // monotonicity in OD / AR
    let step = (t.range(1, 16) as f32) * 0.25;
    let harder = full(&mods, clock, ar + step, od + step).hit_windows();
    if harder.ar > hw.ar + EPS {
        return Err(format!("preempt grows with AR: AR {ar} -> {} gives {} -> {}", ar + step, hw.ar, harder.ar));
    }
    if harder.od_great > hw.od_great + EPS {
        return Err(format!("great window grows with OD: OD {od} -> {} gives {} -> {}", od + step, hw.od_great, harder.od_great));
    }
    for (name, a, b2) in [("ok", hw.od_ok, harder.od_ok), ("meh", hw.od_meh, harder.od_meh)] {
        if let (Some(a), Some(b2)) = (a, b2) {
            if b2 > a + EPS {
                return Err(format!("{name} window grows with OD: {a} -> {b2}"));
            }
        }
    }
    info.comparisons += 4;
    // clock rate scaling
    let r1 = *t.pick(&[0.5, 0.75, 1.0, 1.37, 1.5, 2.0, 0.01, 100.0, 3.3]);
    let r2 = t.float(0.5, 2.0);
    for r in [r1, r2] {
        let other = full(&mods, Some(r), ar, od).hit_windows();
        let one = full(&mods, Some(1.0), ar, od).hit_windows();
        let rel = |a: f64, b: f64| (a - b).abs() <= EPS * a.abs().max(b.abs()).max(1.0);
        // a value that already considers mods must give windows that do not depend on the clock rate
        if with_ar {
            if !rel(other.ar, one.ar) {
                return Err(format!("AR with_mods=true but preempt depends on clock rate {r}: {} vs {}", other.ar, one.ar));
            }
        } else if !rel(other.ar * r, one.ar) {
            return Err(format!("preempt does not scale inversely with clock rate {r}: {} * {r} vs {}", other.ar, one.ar));
        }
        if with_od {
            if mode != GameMode::Mania && (!rel(other.od_great, one.od_great) || other.od_ok.zip(one.od_ok).is_some_and(|(a, b)| !rel(a, b))) {
                return Err(format!("OD with_mods=true but hit windows depend on clock rate {r}: {other:?} vs {one:?}"));
            }
        } else {
            if mode != GameMode::Mania {
                if !rel(other.od_great * r, one.od_great) {
                    return Err(format!("great window does not scale inversely with clock rate {r}: {} vs {}", other.od_great, one.od_great));
                }
                for (a, b2) in [(other.od_ok, one.od_ok), (other.od_meh, one.od_meh)] {
                    if let (Some(a), Some(b2)) = (a, b2) {
                        if !rel(a * r, b2) {
                            return Err(format!("ok/meh window does not scale inversely with clock rate {r}: {a} vs {b2}"));
                        }
                    }
                }
            }
        }
        if mode == GameMode::Mania {
            // lazer defines the mania great window as ceil(floor(v*r)/r): constant in wall-clock terms.
            // With g1 = floor(v) at rate 1: v in [g1, g1+1), hence g1 - 1/r < great < g1 + 2.
            let g1 = one.od_great;
            if !(other.od_great > g1 - 1.0 / r - EPS && other.od_great < g1 + 2.0 + EPS) {
                return Err(format!("mania great window {} at rate {r} outside ({} - 1/r, {} + 2)", other.od_great, g1, g1));
            }
        }
        info.comparisons += 1;
    }
    // HR / EZ ordering (values in [0, 10], with_mods = false, same everything else)
    if none_with_mods && in_unit(ar) && in_unit(od) && in_unit(cs) && in_unit(hp) && !lazer_da {
        let rate_bits = bits & (DT | HT);
        let get = |b: u32| {
            let m = ModsSpec { bits: rate_bits | b, repr: mods.repr, extras: Vec::new() };
            base(mode, is_convert, &m, clock).ar(ar, false).od(od, false).cs(cs, false).hp(hp, false).build()
        };
        let (hr, nm, ez) = (get(HR), get(0), get(EZ));
        let ord = |name: &str, h: f64, n: f64, e: f64| {
            if h + EPS < n || n + EPS < e {
                Err(format!("{name}: HR {h} / NM {n} / EZ {e} not ordered HR >= NM >= EZ"))
            } else {
                Ok(())
            }
        };
        ord("ar", hr.ar, nm.ar, ez.ar)?;
        if !matches!(mode, GameMode::Catch | GameMode::Mania) {
            ord("od", hr.od, nm.od, ez.od)?;
        }
        ord("cs", hr.cs, nm.cs, ez.cs)?;
        ord("hp", hr.hp, nm.hp, ez.hp)?;
        // windows: HR <= NM <= EZ
        ord("-preempt", -hr.hit_windows.ar, -nm.hit_windows.ar, -ez.hit_windows.ar)?;
        ord("-great", -hr.hit_windows.od_great, -nm.hit_windows.od_great, -ez.hit_windows.od_great)?;
        info.comparisons += 6;
        info.label("hr-ez-ordering");
    }
    info.nontrivial = od != 5.0 && (bits != 0 || clock.is_some_and(|c| c != 1.0));
    info.set_key(&format!("{mode:?}{is_convert}{mods:?}{clock:?}{ar}{od}{cs}{hp}{with_ar}{with_od}{with_cs}{with_hp}{step}{r1}{r2}"));
    Ok(())
}

fn case_calculators(t: &mut Tape, info: &mut CaseInfo) -> Result<(), String> {
    let c = gen_map_case(t, info, &MapProfile::small(ALL_MODES, 8), &DiffProfile::wide(), false);
    if info.want_sample {
        info.sample = Some(json!({"map": c.spec.sample(), "target": mode_name(c.target), "difficulty": c.dspec.describe()}));
    }
    // a third of the maps gets its public ar/od/cs/hp fields overwritten after decoding (the decoder clamps
    // them, a caller editing the map need not): calculators and builder must still agree
    let mut src = c.map.clone();
    if t.chance(1, 3) {
        let v = |t: &mut Tape| *t.pick(&[11.0f32, 10.5, -1.0, 15.0, -7.5, 20.0, 0.0, 10.0]);
        if t.coin() {
            src.ar = v(t);
        }
        if t.coin() {
            src.od = v(t);
        }
        if t.coin() {
            src.hp = v(t);
        }
        info.label("hand-edited-map-fields");
    }
    let explicit = src.clone().convert(c.target, &c.dspec.mods.build(c.target)).map_err(|e| e.to_string())?;
    let b = explicit.attributes().difficulty(&c.d);
    // a builder that has already been evaluated and is then pointed at a map must behave like one that was not
    {
        let fresh = BeatmapAttributesBuilder::new().difficulty(&c.d).map(&explicit);
        let used = BeatmapAttributesBuilder::new().difficulty(&c.d);
        let _ = (used.build(), used.hit_windows());
        let reused = used.map(&explicit);
        same("builder evaluated before map(&m) vs builder not evaluated before: build()", &reused.build(), &fresh.build())?;
        same("builder evaluated before map(&m) vs builder not evaluated before: hit_windows()", &reused.hit_windows(), &fresh.hit_windows())?;
        info.comparisons += 2;
    }
    // every way of handing the map to the builder
    {
        let b5 = BeatmapAttributesBuilder::from(&explicit).difficulty(&c.d);
        same("BeatmapAttributesBuilder::from(&map) vs map.attributes()", &b5.build(), &b.build())?;
        let b6 = BeatmapAttributesBuilder::new().map(&explicit).difficulty(&c.d);
        same("BeatmapAttributesBuilder::new().map(&map) vs map.attributes()", &b6.build(), &b.build())?;
        info.comparisons += 2;
    }
    let built = b.build();
    let hw = b.hit_windows();
    same("build().hit_windows vs hit_windows()", &built.hit_windows, &hw)?;
    // the same settings handed to the builder through its own setters (not through `difficulty(&D)`)
    let insp = c.d.clone().inspect();
    let mut b3 = explicit.attributes().mods(insp.mods.clone());
    if let Some(r) = insp.clock_rate {
        b3 = b3.clock_rate(r);
    }
    if let Some(v) = insp.ar {
        b3 = b3.ar(v.value, v.with_mods);
    }
    if let Some(v) = insp.od {
        b3 = b3.od(v.value, v.with_mods);
    }
    if let Some(v) = insp.cs {
        b3 = b3.cs(v.value, v.with_mods);
    }
    if let Some(v) = insp.hp {
        b3 = b3.hp(v.value, v.with_mods);
    }
    same("attributes().<setters>.build() vs attributes().difficulty(&D).build()", &b3.build(), &built)?;
    same("attributes().<setters>.hit_windows() vs attributes().difficulty(&D).hit_windows()", &b3.hit_windows(), &hw)?;
    info.comparisons += 2;
    // the builder configured *before* it is given the map (mods / clock rate survive `map()`)
    let mut b4 = BeatmapAttributesBuilder::new().mods(insp.mods.clone());
    if let Some(r) = insp.clock_rate {
        b4 = b4.clock_rate(r);
    }
    b4 = b4.map(&explicit);
    if let Some(v) = insp.ar {
        b4 = b4.ar(v.value, v.with_mods);
    }
    if let Some(v) = insp.od {
        b4 = b4.od(v.value, v.with_mods);
    }
    if let Some(v) = insp.cs {
        b4 = b4.cs(v.value, v.with_mods);
    }
    if let Some(v) = insp.hp {
        b4 = b4.hp(v.value, v.with_mods);
    }
    same("new().mods().clock_rate().map(&m).<overrides>.build() vs attributes().difficulty(&D).build()", &b4.build(), &built)?;
    info.comparisons += 1;
    let attrs = calc_for_mode(&c.d, &src, c.target)?;
    // the same settings through the individual Performance setters (on the calculator already switched to the
    // target mode): the stored attributes are the same
    {
        let mut p = super::common::perf_for_mode(&src, c.target);
        let mut order: Vec<u8> = (0..9).collect();
        for i in (1..order.len()).rev() {
            let j = t.below_usize(i + 1);
            order.swap(i, j);
        }
        for k in &order {
            p = match k {
                0 => p.mods(insp.mods.clone()),
                1 => insp.passed_objects.map_or(p.clone(), |n| p.clone().passed_objects(n)),
                2 => insp.clock_rate.map_or(p.clone(), |v| p.clone().clock_rate(v)),
                3 => insp.ar.map_or(p.clone(), |v| p.clone().ar(v.value, v.with_mods)),
                4 => insp.cs.map_or(p.clone(), |v| p.clone().cs(v.value, v.with_mods)),
                5 => insp.hp.map_or(p.clone(), |v| p.clone().hp(v.value, v.with_mods)),
                6 => insp.od.map_or(p.clone(), |v| p.clone().od(v.value, v.with_mods)),
                7 => insp.hardrock_offsets.map_or(p.clone(), |v| p.clone().hardrock_offsets(v)),
                _ => insp.lazer.map_or(p.clone(), |v| p.clone().lazer(v)),
            };
        }
        same("difficulty attributes stored by Performance::<setters> vs Difficulty::calculate", &p.calculate().difficulty_attributes(), &attrs)?;
        info.comparisons += 1;
    }
    // the gradual calculator stores the same windows (first value; converts go through the same builder)
    let mut dg = c.dspec.clone();
    dg.passed = None;
    if let Ok(mut g) = rosu_pp::GradualDifficulty::new_with_mode(dg.build(c.target), &src, c.target) {
        if let Some(first) = g.next() {
            let bg = explicit.attributes().difficulty(&dg.build(c.target));
            let (gb, gh) = (bg.build(), bg.hit_windows());
            let chk = |name: &str, a: f64, b: f64| if a == b || (a.is_nan() && b.is_nan()) { Ok(()) } else { Err(format!("gradual {name}: calculator stores {a}, builder says {b}")) };
            match &first {
                DifficultyAttributes::Osu(a) => {
                    chk("ar", a.ar, gb.ar)?;
                    chk("great_hit_window", a.great_hit_window, gh.od_great)?;
                    chk("ok_hit_window", a.ok_hit_window, gh.od_ok.unwrap_or(0.0))?;
                    chk("meh_hit_window", a.meh_hit_window, gh.od_meh.unwrap_or(0.0))?;
                    chk("hp", a.hp, gb.hp)?;
                }
                DifficultyAttributes::Taiko(a) => {
                    chk("great_hit_window", a.great_hit_window, gh.od_great)?;
                    chk("ok_hit_window", a.ok_hit_window, gh.od_ok.unwrap_or(0.0))?;
                }
                DifficultyAttributes::Catch(a) => chk("ar", a.ar, gb.ar)?,
                DifficultyAttributes::Mania(_) => {}
            }
            info.comparisons += 1;
        }
    }
    let eq = |name: &str, a: f64, b: f64| if a == b || (a.is_nan() && b.is_nan()) { Ok(()) } else { Err(format!("{name}: calculator stores {a}, builder says {b}")) };
    match &attrs {
        DifficultyAttributes::Osu(a) => {
            eq("ar", a.ar, built.ar)?;
            eq("od()", a.od(), built.od)?;
            eq("hp", a.hp, built.hp)?;
            eq("great_hit_window", a.great_hit_window, hw.od_great)?;
            eq("ok_hit_window", a.ok_hit_window, hw.od_ok.unwrap_or(0.0))?;
            eq("meh_hit_window", a.meh_hit_window, hw.od_meh.unwrap_or(0.0))?;
            info.comparisons += 6;
        }
        DifficultyAttributes::Taiko(a) => {
            eq("great_hit_window", a.great_hit_window, hw.od_great)?;
            eq("ok_hit_window", a.ok_hit_window, hw.od_ok.unwrap_or(0.0))?;
            info.comparisons += 2;
        }
        DifficultyAttributes::Catch(a) => {
            eq("ar", a.ar, built.ar)?;
            info.comparisons += 1;
        }
        DifficultyAttributes::Mania(_) => {}
    }
    info.nontrivial = !c.dspec.is_default() && c.target != GameMode::Mania;
    info.set_key(&format!("{:?}{:?}{:?}", c.spec, c.dspec, c.target));
    Ok(())
}

pub fn property() -> Property {
    Property {
        id: "C17",
        subchecks: vec![
            SubCheck {
                name: "builder-grid",
                rule: "mode x is_convert x mods {NM,HR,EZ,DT,HT,HR+DT,EZ+HT,HR+HT,EZ+DT in u32/intermode/lazer form, lazer DifficultyAdjust} x clock rate {unset, common, [0.5,2], 0.01..100} x AR/OD/CS/HP on the 0.25 grid in [0,10] / [-20,20] / random x an independent with_mods flag per attribute (all false / all true / mixed). Oracle: build().hit_windows == hit_windows(); with_mods=true => AR/OD/CS/HP reported back within 1e-9 for values in [0,10]; windows non-increasing when AR/OD grow by a grid step; with_mods=false => window*r constant (1e-9 rel.) for preempt and osu/taiko/catch OD windows, with_mods=true => independent of r; mania great window within (g1-1/r, g1+2) of its rate-1 value (lazer defines it as ceil(floor(v*r)/r)); HR>=NM>=EZ for AR/OD/CS/HP and HR<=NM<=EZ for windows (values in [0,10], with_mods=false). Non-trivial: OD != 5 and (mods != NM or clock != 1).",
                quick: 60_000,
                thorough: 1_500_000,
                tape_len: 64,
                f: case_grid,
                direct: None,
            },
            SubCheck {
                name: "calculators-agree",
                rule: "tiny G-MAP maps (<=8 objects, all modes + converts) x wide G-DIFF. Oracle: OsuDifficultyAttributes.{ar, od(), hp, great/ok/meh_hit_window}, TaikoDifficultyAttributes.{great,ok}_hit_window, CatchDifficultyAttributes.ar are exactly map.attributes().difficulty(&D).build()/hit_windows() of the (converted) map, which in turn equal the builder configured through its own mods/clock_rate/ar/od/cs/hp setters with the same values (also when mods and clock rate are set before `map()`), BeatmapAttributesBuilder::from(&map) and new().map(&map) equal map.attributes(); a third of the maps has its public ar/od/hp fields overwritten with out-of-range values after decoding; the first gradual value stores the same AR / hit windows; the attributes stored by Performance configured through its individual setters (generated order) equal Difficulty::calculate. Non-trivial: non-default settings, mode != mania.",
                quick: 8000,
                thorough: 120_000,
                tape_len: 700,
                f: case_calculators,
                direct: None,
            },
        ],
        assumptions: &["mania's great hit window is excluded from the inverse-clock-rate relation (constant in wall-clock terms by design) and given its own bound"],
        enumerate: None,
    }
}
