//! C12 — generated score states are consistent, stable and what calculate() uses.
//! (Shared with C13: attribute shapes and the builder plumbing.)

use rosu_pp::{
    any::{DifficultyAttributes, HitResultPriority, ScoreState},
    catch::CatchDifficultyAttributes,
    mania::ManiaDifficultyAttributes,
    model::mode::GameMode,
    osu::OsuDifficultyAttributes,
    taiko::TaikoDifficultyAttributes,
    Difficulty, Performance,
};
use serde_json::{json, Value};

use super::Property;
use crate::{
    canon::{same, Canon},
    engine::{CaseInfo, SubCheck},
    gen::diff::{LazerExtra, ModRepr, ModsSpec},
    tape::Tape,
};

#[derive(Clone, Copy, Debug, PartialEq, Eq)]
pub enum Origin {
    Stable,
    Lazer,
    /// lazer + Classic, given as a borrowed intermode set that also contains a legacy-bit mod (Hidden); the
    /// lazer representation of Classic is covered by the next two origins
    LazerClassic,
    /// lazer + Classic mod whose `no_slider_head_accuracy` setting is switched off again:
    /// scored like plain lazer (with slider accuracy)
    LazerClassicHeadAcc,
    /// a stable score (`lazer(false)`) that nevertheless carries the lazer Classic mod with slider-head
    /// accuracy switched on: scored like stable
    StableClassicHeadAcc,
}

impl Origin {
    pub fn difficulty(self, mode: GameMode) -> Difficulty {
        match self {
            Origin::Stable => Difficulty::new().lazer(false),
            Origin::Lazer => Difficulty::new().lazer(true),
            Origin::LazerClassic => Difficulty::new()
                .lazer(true)
                .mods(ModsSpec { bits: crate::gen::diff::HD, repr: ModRepr::IntermodeRef, extras: vec![LazerExtra::Classic] }.build(mode)),
            Origin::LazerClassicHeadAcc => Difficulty::new().lazer(true).mods(Self::classic_with_head_acc(mode)),
            Origin::StableClassicHeadAcc => Difficulty::new().lazer(false).mods(Self::classic_with_head_acc(mode)),
        }
    }

    fn classic_with_head_acc(mode: GameMode) -> rosu_pp::GameMods {
        use rosu_pp::model::mods::rosu_mods::{GameMod, GameMods};
        let mut m = GameMod::new("CL", crate::gen::diff::mods_mode(mode));
        if let GameMod::ClassicOsu(cl) = &mut m {
            cl.no_slider_head_accuracy = Some(false);
        }
        let mut mods = GameMods::new();
        mods.insert(m);
        rosu_pp::GameMods::from(mods)
    }

    /// Whether the osu! score uses slider accuracy (slider ends + large ticks) / the classic tick model.
    pub fn osu_with_slider_acc(self) -> bool {
        matches!(self, Origin::Lazer | Origin::LazerClassicHeadAcc)
    }

    /// For mania: whether the classic (stable) judgement model applies.
    pub fn mania_classic(self) -> bool {
        matches!(self, Origin::Stable | Origin::LazerClassic | Origin::LazerClassicHeadAcc | Origin::StableClassicHeadAcc)
    }

    /// The same origin expressed through the Performance setters instead of a Difficulty.
    pub fn apply_setters<'a>(self, p: Performance<'a>, mode: GameMode) -> Performance<'a> {
        match self {
            Origin::Stable => p.lazer(false),
            Origin::Lazer => p.lazer(true),
            Origin::LazerClassic => p.lazer(true).mods(ModsSpec { bits: crate::gen::diff::HD, repr: ModRepr::IntermodeRef, extras: vec![LazerExtra::Classic] }.build(mode)),
            Origin::LazerClassicHeadAcc => p.lazer(true).mods(Self::classic_with_head_acc(mode)),
            Origin::StableClassicHeadAcc => p.lazer(false).mods(Self::classic_with_head_acc(mode)),
        }
    }
}

/// Attribute shape (G-ATTR): only the counts matter for state generation.
#[derive(Clone, Debug, PartialEq)]
pub enum Shape {
    Osu { circles: u32, sliders: u32, spinners: u32, large_ticks: u32, extra_combo: u32 },
    Taiko { max_combo: u32 },
    Catch { fruits: u32, droplets: u32, tiny: u32 },
    Mania { objects: u32, holds: u32 },
}

impl Shape {
    pub fn mode(&self) -> GameMode {
        match self {
            Shape::Osu { .. } => GameMode::Osu,
            Shape::Taiko { .. } => GameMode::Taiko,
            Shape::Catch { .. } => GameMode::Catch,
            Shape::Mania { .. } => GameMode::Mania,
        }
    }

    pub fn attrs(&self) -> DifficultyAttributes {
        match *self {
            Shape::Osu { circles, sliders, spinners, large_ticks, extra_combo } => DifficultyAttributes::Osu(OsuDifficultyAttributes {
                aim: 2.6,
                aim_difficult_slider_count: f64::from(sliders) * 0.5,
                speed: 2.4,
                flashlight: 1.9,
                slider_factor: 0.97,
                speed_note_count: f64::from(circles) * 0.6,
                aim_difficult_strain_count: 12.0,
                speed_difficult_strain_count: 11.0,
                ar: 9.0,
                great_hit_window: 30.0,
                ok_hit_window: 80.0,
                meh_hit_window: 120.0,
                hp: 5.0,
                n_circles: circles,
                n_sliders: sliders,
                n_large_ticks: large_ticks,
                n_spinners: spinners,
                stars: 5.3,
                max_combo: circles + spinners + 2 * sliders + large_ticks + extra_combo,
            }),
            Shape::Taiko { max_combo } => DifficultyAttributes::Taiko(TaikoDifficultyAttributes {
                stamina: 2.1,
                rhythm: 0.9,
                color: 1.4,
                reading: 0.5,
                great_hit_window: 25.0,
                ok_hit_window: 70.0,
                mono_stamina_factor: 0.3,
                stars: 4.2,
                max_combo,
                is_convert: false,
            }),
            Shape::Catch { fruits, droplets, tiny } => DifficultyAttributes::Catch(CatchDifficultyAttributes {
                stars: 4.4,
                ar: 9.0,
                n_fruits: fruits,
                n_droplets: droplets,
                n_tiny_droplets: tiny,
                is_convert: false,
            }),
            Shape::Mania { objects, holds } => DifficultyAttributes::Mania(ManiaDifficultyAttributes {
                stars: 4.8,
                n_objects: objects,
                n_hold_notes: holds.min(objects),
                max_combo: objects + 3 * holds.min(objects),
                is_convert: false,
            }),
        }
    }

    pub fn describe(&self) -> Value {
        json!(format!("{self:?}"))
    }
}

fn small_count(t: &mut Tape) -> u32 {
    match t.weighted(&[12, 2, 1]) {
        0 => t.range(0, 12) as u32,
        1 => t.range(13, 120) as u32,
        _ => t.range(121, 1500) as u32,
    }
}

pub fn gen_shape(t: &mut Tape) -> Shape {
    match t.below(4) {
        0 => Shape::Osu {
            circles: small_count(t),
            sliders: if t.chance(1, 3) { 0 } else { small_count(t) },
            spinners: t.range(0, 2) as u32,
            large_ticks: if t.chance(1, 2) { 0 } else { small_count(t) },
            extra_combo: t.range(0, 3) as u32,
        },
        1 => Shape::Taiko { max_combo: small_count(t) },
        2 => Shape::Catch { fruits: small_count(t), droplets: if t.chance(1, 3) { 0 } else { small_count(t) }, tiny: if t.chance(1, 3) { 0 } else { small_count(t) } },
        _ => {
            let objects = small_count(t);
            Shape::Mania { objects, holds: if t.chance(1, 3) { 0 } else { t.range(0, i64::from(objects)) as u32 } }
        }
    }
}

/// What the caller provides to the builder.
#[derive(Clone, Debug, Default, PartialEq)]
pub struct Provided {
    pub accuracy: Option<f64>,
    pub combo: Option<u32>,
    pub misses: Option<u32>,
    /// osu n300 / taiko n300 / catch fruits / mania n300
    pub n300: Option<u32>,
    /// osu n100 / taiko n100 / catch droplets / mania n100
    pub n100: Option<u32>,
    /// osu n50 / catch tiny droplets / mania n50
    pub n50: Option<u32>,
    /// catch tiny droplet misses / mania n200
    pub n_katu: Option<u32>,
    /// mania n320
    pub n_geki: Option<u32>,
    pub large_tick_hits: Option<u32>,
    pub small_tick_hits: Option<u32>,
    pub slider_end_hits: Option<u32>,
    pub worst_case: Option<bool>,
    pub passed: Option<u32>,
    /// express origin / passed_objects through the Performance setters instead of a Difficulty
    pub via_setters: bool,
    /// (Difficulty route only) pass the Difficulty through its inspectable form first: 1 = inspect().into_difficulty(), 2 = Difficulty::from(InspectDifficulty)
    pub via_inspect: u8,
}

impl Provided {
    pub fn apply<'a>(&self, attrs: DifficultyAttributes, origin: Origin) -> Performance<'a> {
        let mode = match attrs {
            DifficultyAttributes::Osu(_) => GameMode::Osu,
            DifficultyAttributes::Taiko(_) => GameMode::Taiko,
            DifficultyAttributes::Catch(_) => GameMode::Catch,
            DifficultyAttributes::Mania(_) => GameMode::Mania,
        };
        let mut p = if self.via_setters {
            let mut p = origin.apply_setters(Performance::new(attrs), mode);
            if let Some(n) = self.passed {
                p = p.passed_objects(n);
            }
            p
        } else {
            let mut d = origin.difficulty(mode);
            if let Some(p) = self.passed {
                d = d.passed_objects(p);
            }
            let d = match self.via_inspect {
                1 => d.inspect().into_difficulty(),
                2 => rosu_pp::Difficulty::from(d.inspect()),
                _ => d,
            };
            Performance::new(attrs).difficulty(d)
        };
        if let Some(v) = self.accuracy {
            p = p.accuracy(v);
        }
        if let Some(v) = self.combo {
            p = p.combo(v);
        }
        if let Some(v) = self.misses {
            p = p.misses(v);
        }
        if let Some(v) = self.n300 {
            p = p.n300(v);
        }
        if let Some(v) = self.n100 {
            p = p.n100(v);
        }
        if let Some(v) = self.n50 {
            p = p.n50(v);
        }
        if let Some(v) = self.n_katu {
            p = p.n_katu(v);
        }
        if let Some(v) = self.n_geki {
            p = p.n_geki(v);
        }
        if let Some(v) = self.large_tick_hits {
            p = p.large_tick_hits(v);
        }
        if let Some(v) = self.small_tick_hits {
            p = p.small_tick_hits(v);
        }
        if let Some(v) = self.slider_end_hits {
            p = p.slider_end_hits(v);
        }
        if let Some(w) = self.worst_case {
            p = p.hitresult_priority(if w { HitResultPriority::WorstCase } else { HitResultPriority::BestCase });
        }
        p
    }
}

fn gen_provided(t: &mut Tape, shape: &Shape) -> Provided {
    let n = match *shape {
        Shape::Osu { circles, sliders, spinners, .. } => circles + sliders + spinners,
        Shape::Taiko { max_combo } => max_combo,
        Shape::Catch { fruits, droplets, .. } => fruits + droplets,
        Shape::Mania { objects, holds } => objects + holds,
    };
    let cnt = |t: &mut Tape, max: u32| -> u32 {
        match t.weighted(&[12, 2, 1]) {
            0 => t.range(0, i64::from(max) + 3) as u32,
            1 => t.range(0, i64::from(max) * 2 + 5) as u32,
            _ => *t.pick(&[100_000u32, u32::MAX / 16, 1_000_000]),
        }
    };
    let opt = |t: &mut Tape, max: u32, num: u32, den: u32| if t.chance(num, den) { Some(cnt(t, max)) } else { None };
    let relevant_katu = matches!(shape, Shape::Catch { .. } | Shape::Mania { .. });
    let relevant_geki = matches!(shape, Shape::Mania { .. });
    let tiny = if let Shape::Catch { tiny, .. } = shape { *tiny } else { n };
    let mut provided = Provided {
        accuracy: if t.chance(1, 2) {
            Some(match t.weighted(&[8, 3, 1]) {
                0 => t.float(0.0, 100.0),
                1 => *t.pick(&[100.0, 0.0, 99.0, 95.5, 50.0, 33.333]),
                _ => *t.pick(&[-5.0, 150.0, 1e9, f64::INFINITY, f64::NEG_INFINITY, f64::MAX, -1e300]),
            })
        } else {
            None
        },
        combo: opt(t, n * 3, 1, 3),
        misses: opt(t, n, 1, 2),
        n300: opt(t, n, 1, 2),
        n100: opt(t, n, 1, 2),
        n50: if matches!(shape, Shape::Taiko { .. }) { None } else { opt(t, if matches!(shape, Shape::Catch { .. }) { tiny } else { n }, 1, 2) },
        n_katu: if relevant_katu { opt(t, if matches!(shape, Shape::Catch { .. }) { tiny } else { n }, 1, 2) } else { None },
        n_geki: if relevant_geki { opt(t, n, 1, 2) } else { None },
        large_tick_hits: if matches!(shape, Shape::Osu { .. }) { opt(t, n, 1, 4) } else { None },
        small_tick_hits: if matches!(shape, Shape::Osu { .. }) { opt(t, n, 1, 4) } else { None },
        slider_end_hits: if matches!(shape, Shape::Osu { .. }) { opt(t, n, 1, 4) } else { None },
        worst_case: if t.chance(1, 2) { Some(t.coin()) } else { None },
        passed: if t.chance(1, 3) { Some(t.range(0, i64::from(n) + 2) as u32) } else { None },
        via_setters: t.coin(),
        via_inspect: if t.chance(1, 3) { 1 + t.below(2) as u8 } else { 0 },
    };
    // a third of the specifications is made to *fit jointly*: the provided hit results and misses are scaled
    // down to a random composition of at most N (independent draws almost always over-specify)
    if t.chance(1, 3) {
        let mut budget = t.range(0, i64::from(n)) as u32;
        let fields: [&mut Option<u32>; 6] = [&mut provided.misses, &mut provided.n_geki, &mut provided.n300, &mut provided.n_katu, &mut provided.n100, &mut provided.n50];
        for f in fields {
            if let Some(v) = f {
                *v = if t.chance(1, 4) { 0 } else { t.range(0, i64::from(budget)) as u32 };
                budget -= *v;
            }
        }
    }
    provided
}

/// Mode-independent view of what the mode expects: (n_obj, N, per-category provided/out pairs).
struct View {
    n_obj: u32,
    n_total: u32,
    /// (name, provided, out)
    cats: Vec<(&'static str, Option<u32>, u32)>,
    max_combo_attr: Option<u32>,
}

fn view(shape: &Shape, origin: Origin, p: &Provided, s: &ScoreState) -> View {
    let passed = p.passed.unwrap_or(u32::MAX);
    match *shape {
        Shape::Osu { circles, sliders, spinners, large_ticks, extra_combo } => {
            let n_obj = passed.min(circles + sliders + spinners);
            View {
                n_obj,
                n_total: n_obj,
                cats: vec![("n300", p.n300, s.n300), ("n100", p.n100, s.n100), ("n50", p.n50, s.n50)],
                max_combo_attr: Some(circles + spinners + 2 * sliders + large_ticks + extra_combo),
            }
        }
        Shape::Taiko { max_combo } => {
            let n_obj = passed.min(max_combo);
            View { n_obj, n_total: n_obj, cats: vec![("n300", p.n300, s.n300), ("n100", p.n100, s.n100)], max_combo_attr: Some(max_combo) }
        }
        Shape::Catch { fruits, droplets, .. } => {
            let n_obj = fruits + droplets;
            View { n_obj, n_total: n_obj, cats: vec![("fruits", p.n300, s.n300), ("droplets", p.n100, s.n100)], max_combo_attr: Some(fruits + droplets) }
        }
        Shape::Mania { objects, holds } => {
            let n_obj = passed.min(objects);
            let n_total = n_obj + if origin.mania_classic() { 0 } else { holds.min(objects) };
            View {
                n_obj,
                n_total,
                cats: vec![("n320", p.n_geki, s.n_geki), ("n300", p.n300, s.n300), ("n200", p.n_katu, s.n_katu), ("n100", p.n100, s.n100), ("n50", p.n50, s.n50)],
                max_combo_attr: None,
            }
        }
    }
}

pub const K_CATCH_COMBO: &str = "C12/catch-combo-unclamped";
pub const K_MANIA_FOUR_OF_FIVE: &str = "C12/mania-acc-four-of-five";

pub fn oracle(shape: &Shape, origin: Origin, p: &Provided, info: &mut CaseInfo) -> Result<(), String> {
    let attrs = shape.attrs();
    let mut builder = p.apply(attrs.clone(), origin);
    let calc_twin = builder.clone();
    let s1 = builder.generate_state();
    let s2 = builder.generate_state();
    info.comparisons += 1;
    // P5
    if s1 != s2 {
        return Err(format!("P5: generate_state() twice gives {s1:?} then {s2:?}"));
    }
    let v = view(shape, origin, p, &s1);
    // P1
    let misses_in = p.misses.unwrap_or(0);
    if s1.misses > v.n_obj {
        return Err(format!("P1: {} misses for {} objects", s1.misses, v.n_obj));
    }
    if misses_in <= v.n_obj && s1.misses != misses_in {
        return Err(format!("P1: {misses_in} misses provided (<= {} objects) but state has {}", v.n_obj, s1.misses));
    }
    let n_remaining = v.n_total - s1.misses;
    let sum_provided: u64 = v.cats.iter().map(|c| u64::from(c.1.unwrap_or(0).min(n_remaining))).sum();
    // per-kind maximum: what the map can yield at all (catch: fruits <= n_fruits, droplets <= n_droplets)
    let kind_max = |name: &str| match (shape, name) {
        (Shape::Catch { fruits, .. }, "fruits") => (*fruits).min(n_remaining),
        (Shape::Catch { droplets, .. }, "droplets") => (*droplets).min(n_remaining),
        _ => n_remaining,
    };
    let fits_each = v.cats.iter().all(|c| c.1.unwrap_or(0) <= kind_max(c.0));
    let fits = fits_each && misses_in <= v.n_obj && sum_provided + u64::from(s1.misses) <= u64::from(v.n_total);
    let sum_out: u64 = v.cats.iter().map(|c| u64::from(c.2)).sum::<u64>() + u64::from(s1.misses);
    // P2
    if fits {
        for (name, prov, out) in &v.cats {
            if let Some(pv) = prov {
                if out < pv {
                    return Err(format!("P2: provided {name}={pv} fits (sum {sum_provided} + {} misses <= {}) but was lowered to {out}", s1.misses, v.n_total));
                }
            }
        }
        if v.cats.iter().all(|c| c.1.is_some()) && sum_provided + u64::from(s1.misses) == u64::from(v.n_total) {
            for (name, prov, out) in &v.cats {
                if Some(*out) != *prov {
                    return Err(format!("P2: all results provided and summing to N exactly, but {name} {prov:?} became {out}"));
                }
            }
        }
    }
    // P2 (slider parts, osu!): a provided slider-end / tick count that fits its maximum is kept; parts the
    // score origin does not have are zero
    if let Shape::Osu { sliders, large_ticks, .. } = *shape {
        let expect = |prov: Option<u32>, max: u32| prov.map_or(max, |v| v.min(max));
        let (exp_ends, exp_large, exp_small) = if matches!(origin, Origin::Stable | Origin::StableClassicHeadAcc) {
            (0, 0, 0)
        } else if origin.osu_with_slider_acc() {
            (expect(p.slider_end_hits, sliders), expect(p.large_tick_hits, large_ticks), 0)
        } else {
            (0, expect(p.large_tick_hits, sliders + large_ticks), expect(p.small_tick_hits, sliders))
        };
        if (s1.slider_end_hits, s1.osu_large_tick_hits, s1.osu_small_tick_hits) != (exp_ends, exp_large, exp_small) {
            return Err(format!(
                "P2: slider parts (ends, large ticks, small ticks) = {:?}, expected {:?} for origin {origin:?} with provided {:?}/{:?}/{:?} on {sliders} sliders and {large_ticks} large ticks",
                (s1.slider_end_hits, s1.osu_large_tick_hits, s1.osu_small_tick_hits),
                (exp_ends, exp_large, exp_small),
                p.slider_end_hits,
                p.large_tick_hits,
                p.small_tick_hits
            ));
        }
    }
    // P3
    if sum_provided + u64::from(s1.misses) <= u64::from(v.n_total) && sum_out != u64::from(v.n_total) {
        return Err(format!(
            "P3: provided results ({sum_provided} + {} misses) do not exceed N={} but the state sums to {sum_out}: {s1:?}",
            s1.misses, v.n_total
        ));
    }
    if let Shape::Catch { tiny, .. } = shape {
        let pt = u64::from(p.n50.unwrap_or(0)) + u64::from(p.n_katu.unwrap_or(0));
        if pt <= u64::from(*tiny) && u64::from(s1.n50) + u64::from(s1.n_katu) != u64::from(*tiny) {
            return Err(format!("P3: tiny droplets + tiny misses = {} but the map has {tiny}", s1.n50 + s1.n_katu));
        }
    }
    // P4
    if let Some(mc) = v.max_combo_attr {
        let bound = mc.saturating_sub(s1.misses);
        if s1.max_combo > bound {
            return Err(format!("P4: max_combo {} above achievable {} (= {mc} - {} misses)", s1.max_combo, bound, s1.misses));
        }
    }
    // P6: calculate() uses exactly that state
    let via_calc = calc_twin.calculate();
    let mut d = origin.difficulty(shape.mode());
    if let Some(pp) = p.passed {
        d = d.passed_objects(pp);
    }
    let mut fresh = Performance::new(attrs).difficulty(d).state(s1.clone());
    if let Some(w) = p.worst_case {
        fresh = fresh.hitresult_priority(if w { HitResultPriority::WorstCase } else { HitResultPriority::BestCase });
    }
    let regenerated = fresh.generate_state();
    if regenerated != s1 {
        return Err(format!("P6: supplying the generated state explicitly regenerates a different state: {s1:?} -> {regenerated:?}"));
    }
    same("P6: calculate() vs fresh builder with the generated state", &via_calc, &fresh.calculate())?;
    info.comparisons += 6;
    let _ = via_calc.dump();
    // P7: generate_state() stores the state it returns, so from then on the builder is the builder that was handed that
    // state explicitly - also when the score origin is changed afterwards (every field of the state was stored, not only
    // the ones the first origin looks at)
    let handed = p.apply(shape.attrs(), origin).state(s1.clone());
    for o2 in [Origin::Lazer, Origin::Stable, Origin::LazerClassic, Origin::LazerClassicHeadAcc, Origin::StableClassicHeadAcc] {
        if o2 == origin {
            continue;
        }
        let mut a = o2.apply_setters(builder.clone(), shape.mode());
        let mut b = o2.apply_setters(handed.clone(), shape.mode());
        let (sa, sb) = (a.generate_state(), b.generate_state());
        if sa != sb {
            return Err(format!("P7: after generate_state() under {origin:?} and a switch to {o2:?} the builder generates {sa:?}, the builder handed the first state generates {sb:?}"));
        }
        same("P7: calculate() after an origin switch, generating builder vs builder handed the state", &a.calculate(), &b.calculate())?;
        info.comparisons += 2;
    }
    Ok(())
}

fn provided_json(p: &Provided) -> Value {
    json!({"accuracy": p.accuracy.map(|a| format!("{a:?}")), "combo": p.combo, "misses": p.misses, "n300": p.n300, "n100": p.n100, "n50": p.n50,
           "n_katu": p.n_katu, "n_geki": p.n_geki, "large_tick_hits": p.large_tick_hits, "small_tick_hits": p.small_tick_hits,
           "slider_end_hits": p.slider_end_hits, "worst_case": p.worst_case, "passed": p.passed, "via_setters": p.via_setters, "via_inspect": p.via_inspect})
}

pub fn provided_from_json(v: &Value) -> Provided {
    let u = |k: &str| v.get(k).and_then(Value::as_u64).map(|x| x as u32);
    Provided {
        accuracy: v.get("accuracy").and_then(|a| a.as_str().and_then(|s| s.parse().ok()).or_else(|| a.as_f64())),
        combo: u("combo"),
        misses: u("misses"),
        n300: u("n300"),
        n100: u("n100"),
        n50: u("n50"),
        n_katu: u("n_katu"),
        n_geki: u("n_geki"),
        large_tick_hits: u("large_tick_hits"),
        small_tick_hits: u("small_tick_hits"),
        slider_end_hits: u("slider_end_hits"),
        worst_case: v.get("worst_case").and_then(Value::as_bool),
        passed: u("passed"),
        via_setters: v.get("via_setters").and_then(Value::as_bool).unwrap_or(false),
        via_inspect: v.get("via_inspect").and_then(Value::as_u64).unwrap_or(0) as u8,
    }
}

pub fn shape_json(s: &Shape) -> Value {
    match *s {
        Shape::Osu { circles, sliders, spinners, large_ticks, extra_combo } => json!({"mode": "Osu", "circles": circles, "sliders": sliders, "spinners": spinners, "large_ticks": large_ticks, "extra_combo": extra_combo}),
        Shape::Taiko { max_combo } => json!({"mode": "Taiko", "max_combo": max_combo}),
        Shape::Catch { fruits, droplets, tiny } => json!({"mode": "Catch", "fruits": fruits, "droplets": droplets, "tiny": tiny}),
        Shape::Mania { objects, holds } => json!({"mode": "Mania", "objects": objects, "holds": holds}),
    }
}

pub fn shape_from_json(v: &Value) -> Option<Shape> {
    let u = |k: &str| v.get(k).and_then(Value::as_u64).unwrap_or(0) as u32;
    Some(match v.get("mode")?.as_str()? {
        "Osu" => Shape::Osu { circles: u("circles"), sliders: u("sliders"), spinners: u("spinners"), large_ticks: u("large_ticks"), extra_combo: u("extra_combo") },
        "Taiko" => Shape::Taiko { max_combo: u("max_combo") },
        "Catch" => Shape::Catch { fruits: u("fruits"), droplets: u("droplets"), tiny: u("tiny") },
        "Mania" => Shape::Mania { objects: u("objects"), holds: u("holds") },
        _ => return None,
    })
}

pub fn origin_from_name(s: &str) -> Origin {
    match s {
        "Stable" => Origin::Stable,
        "LazerClassic" => Origin::LazerClassic,
        "LazerClassicHeadAcc" => Origin::LazerClassicHeadAcc,
        "StableClassicHeadAcc" => Origin::StableClassicHeadAcc,
        _ => Origin::Lazer,
    }
}

fn direct(v: &Value) -> Result<(), String> {
    let shape = shape_from_json(v.get("shape").ok_or("no shape")?).ok_or("bad shape")?;
    let origin = origin_from_name(v.get("origin").and_then(Value::as_str).unwrap_or("Lazer"));
    let p = provided_from_json(v.get("provided").ok_or("no provided")?);
    oracle(&shape, origin, &p, &mut CaseInfo::default())
}

fn case(t: &mut Tape, info: &mut CaseInfo) -> Result<(), String> {
    let shape = gen_shape(t);
    let origin = *t.pick(&[Origin::Lazer, Origin::Stable, Origin::LazerClassic, Origin::LazerClassicHeadAcc, Origin::StableClassicHeadAcc]);
    let mut p = gen_provided(t, &shape);
    // open findings: steer out of the class by construction
    if crate::known::is_open(K_CATCH_COMBO) && matches!(shape, Shape::Catch { .. }) && p.combo.is_some() {
        if let Shape::Catch { fruits, droplets, .. } = shape {
            let bound = (fruits + droplets).saturating_sub(p.misses.unwrap_or(0).min(fruits + droplets));
            if p.combo.unwrap() > bound {
                p.combo = Some(bound);
                info.excluded_known += 1;
            }
        }
    }
    if crate::known::is_open(K_MANIA_FOUR_OF_FIVE) && matches!(shape, Shape::Mania { .. }) && p.accuracy.is_some() {
        let provided = [p.n_geki, p.n300, p.n_katu, p.n100, p.n50].iter().filter(|x| x.is_some()).count();
        if provided == 4 {
            p.accuracy = None;
            info.excluded_known += 1;
        }
    }
    info.label(format!("mode={:?}", shape.mode()));
    info.label(format!("origin={origin:?}"));
    let n_cats = match shape {
        Shape::Osu { .. } => 3,
        Shape::Taiko { .. } | Shape::Catch { .. } => 2,
        Shape::Mania { .. } => 5,
    };
    let provided_cats = match shape {
        Shape::Osu { .. } => [p.n300, p.n100, p.n50].iter().filter(|x| x.is_some()).count(),
        Shape::Taiko { .. } | Shape::Catch { .. } => [p.n300, p.n100].iter().filter(|x| x.is_some()).count(),
        Shape::Mania { .. } => [p.n_geki, p.n300, p.n_katu, p.n100, p.n50].iter().filter(|x| x.is_some()).count(),
    };
    info.label_if(p.passed.is_some(), "passed-prefix");
    info.label_if(p.accuracy.is_some(), "accuracy");
    info.label_if(matches!(shape, Shape::Osu { sliders: 0, .. }), "zero-sliders");
    info.label_if(matches!(shape, Shape::Osu { circles: 0, .. }), "zero-circles");
    info.label(format!("provided-cats={provided_cats}/{n_cats}"));
    if info.want_sample {
        info.sample = Some(json!({"shape": shape.describe(), "origin": format!("{origin:?}"), "provided": provided_json(&p)}));
        info.direct = Some(json!({"shape": shape_json(&shape), "origin": format!("{origin:?}"), "provided": provided_json(&p)}));
    }
    oracle(&shape, origin, &p, info)?;
    let n = match shape {
        Shape::Osu { circles, sliders, spinners, .. } => circles + sliders + spinners,
        Shape::Taiko { max_combo } => max_combo,
        Shape::Catch { fruits, droplets, .. } => fruits + droplets,
        Shape::Mania { objects, .. } => objects,
    };
    info.nontrivial = provided_cats >= 1 && provided_cats < n_cats && n >= 2;
    info.set_key(&format!("{shape:?}{origin:?}{p:?}"));
    Ok(())
}

pub fn property() -> Property {
    Property {
        id: "C12",
        subchecks: vec![SubCheck {
            name: "generated-state-predicates",
            rule: "G-ATTR shapes of all four modes (every count 0..12, occasionally up to 1500; zero sliders / zero circles / zero droplets explicit) x origin stable / lazer / lazer+Classic / lazer+Classic with slider-head accuracy switched back on (each expressed through a Difficulty or through the Performance setters) x each of accuracy, combo, misses and every hit-result setter independently absent or 0..N+3 (occasionally up to 2N+5 or huge) x both priorities x passed_objects absent or 0..N+2. Oracle (validity predicates on Performance::generate_state()): P1 misses<=objects and kept when they fit; P2 provided results that jointly fit are never lowered, a fully specified exact state is returned unchanged, and (osu!) provided slider-end / tick counts are kept up to their maximum for the score origin; P3 whenever provided results + misses do not exceed N the state sums to exactly N (catch: tiny+tiny-misses = n_tiny); P4 max_combo <= attrs.max_combo - misses (osu, taiko, catch); P5 generating twice gives the same state; P6 calculate() equals a fresh builder given the generated state explicitly (all fields), and that builder regenerates the same state; P7 the builder that generated the state and a builder handed it explicitly stay interchangeable when the score origin is switched afterwards to each of the other four origins (state and calculate()). Non-trivial: >=1 and not all hit results provided, N>=2.",
            quick: 150_000,
            thorough: 3_000_000,
            tape_len: 64,
            f: case,
            direct: Some(direct),
        }],
        assumptions: &["release-profile arithmetic (u32 overflow in debug builds is C05's content)", "P2 is the weakest reading of `keeps every provided hit result that fits`: builders may add the remainder to a provided field"],
        enumerate: None,
    }
}
