//! C20 — concurrent use is interference-free.

use std::sync::{
    atomic::{AtomicUsize, Ordering},
    Arc, Mutex,
};

use rosu_pp::{model::mode::GameMode, Beatmap, GradualDifficulty};
use serde_json::json;

use super::{
    common::{calc_for_mode, in_open_taiko_class, perf_for_mode, strains_for_mode},
    Property,
};
use crate::{
    canon::Canon,
    engine::{CaseInfo, SubCheck},
    gen::{
        diff::{gen_diff, mode_of, DiffProfile, DiffSpec},
        map::{gen_map, MapProfile, MapSpec, ALL_MODES},
        score::{gen_score_spec, ScoreSpec},
    },
    tape::Tape,
};

#[derive(Clone, Debug)]
struct Job {
    map: usize,
    kind: u8,
    mode: u8,
    d: usize,
    /// scheduling perturbation before the job: number of yields and spin iterations
    yields: u8,
    spin: u16,
}

struct World {
    specs: Vec<MapSpec>,
    texts: Vec<String>,
    maps: Vec<Beatmap>,
    dspecs: Vec<DiffSpec>,
    score: ScoreSpec,
    seed_heavy: bool,
    conversion_heavy: bool,
}

fn target_for(map: &Beatmap, mode: u8) -> GameMode {
    if map.mode == GameMode::Osu {
        mode_of(mode)
    } else {
        map.mode
    }
}

fn gradual_ok(map: &Beatmap, target: GameMode, ds: &DiffSpec) -> bool {
    if target != GameMode::Taiko {
        return true;
    }
    match map.convert_ref(GameMode::Taiko, &ds.mods.build(target)) {
        Ok(c) => !in_open_taiko_class(&c.hit_objects),
        Err(_) => false,
    }
}

fn run_job(w: &World, map: &Beatmap, job: &Job) -> String {
    for _ in 0..job.yields {
        std::thread::yield_now();
    }
    let mut x = 0u32;
    for i in 0..job.spin {
        x = x.wrapping_mul(31).wrapping_add(u32::from(i));
    }
    std::hint::black_box(x);
    let target = target_for(map, job.mode);
    let ds = &w.dspecs[job.d];
    let d = ds.build(target);
    match job.kind {
        0 => Beatmap::from_bytes(w.texts[job.map].as_bytes()).map_or_else(|e| format!("err {e}"), |m| format!("{:016x}", crate::engine::fnv(format!("{m:?}").as_bytes()))),
        1 => match map.convert_ref(mode_of(job.mode), &ds.mods.build(mode_of(job.mode))) {
            Ok(c) => format!("{:016x}", crate::engine::fnv(format!("{:?}", c.as_ref()).as_bytes())),
            Err(e) => format!("err {e:?}"),
        },
        2 => calc_for_mode(&d, map, target).map_or_else(|e| e, |a| a.dump().line()),
        3 => strains_for_mode(&d, map, target).map_or_else(|e| e, |a| format!("{:016x}", crate::engine::fnv(a.dump().line().as_bytes()))),
        4 => w.score.apply(perf_for_mode(map, target).difficulty(d)).calculate().dump().line(),
        6 => format!("{:016x}", map.bpm().to_bits()),
        // the generic entry point on the map's own mode
        7 => d.calculate(map).dump().line(),
        _ => {
            let mut dg = ds.clone();
            dg.passed = None;
            if !gradual_ok(map, target, &dg) {
                return "skipped".into();
            }
            match GradualDifficulty::new_with_mode(dg.build(target), map, target) {
                Ok(g) => {
                    let v: Vec<_> = g.collect();
                    format!("{:016x}", crate::engine::fnv(v.dump().line().as_bytes()))
                }
                Err(e) => format!("err {e:?}"),
            }
        }
    }
}

fn gen_world(t: &mut Tape) -> (World, Vec<Job>) {
    let n_maps = t.range(2, 4) as usize;
    // a quarter of the worlds is conversion-heavy: only osu maps of different densities (so their
    // conversion parameters differ), converted to mania/taiko concurrently; taiko marathons (every
    // section non-zero for hours) appear in a tenth of the maps
    let conversion_heavy = t.chance(1, 4);
    let specs: Vec<MapSpec> = (0..n_maps)
        .map(|_| {
            let mut prof = if conversion_heavy { MapProfile::small(crate::gen::map::OSU_ONLY, 60) } else { MapProfile::small(ALL_MODES, 30) };
            if conversion_heavy {
                prof.size_weights = [0, 3, 7];
            }
            prof.marathon_one_in = 10;
            gen_map(t, &prof)
        })
        .collect();
    let mut specs = specs;
    // a fifth of the ordinary worlds: map 0 is one of C01's tie-heavy maps (several beat lengths with equal
    // accumulated durations) and bpm() joins the job kinds
    let tie_world = !conversion_heavy && t.chance(1, 5);
    if tie_world {
        specs[0] = super::c01::tie_heavy(t);
    }
    let texts: Vec<String> = specs.iter().map(MapSpec::render).collect();
    let maps: Vec<Beatmap> = specs.iter().map(MapSpec::decode).collect();
    // a third of the worlds is "seed-heavy": every job carries a lazer Random mod with its own seed, so
    // concurrent calculations initialise the conversion PRNGs with different seeds at the same time
    let seed_heavy = t.chance(1, 3);
    let dspecs: Vec<DiffSpec> = (0..3)
        .map(|i| {
            let m = mode_of(t.below(4) as u8);
            let mut d = gen_diff(t, &DiffProfile::realistic().passed(12), m);
            if seed_heavy {
                d.mods = crate::gen::diff::ModsSpec {
                    bits: d.mods.bits & (crate::gen::diff::HR | crate::gen::diff::DT | crate::gen::diff::HD),
                    repr: crate::gen::diff::ModRepr::Lazer,
                    extras: vec![crate::gen::diff::LazerExtra::Random(Some((1000 * (i + 1)) as f64 + t.range(0, 999) as f64))],
                };
            }
            d
        })
        .collect();
    let mut dspecs = dspecs;
    // a quarter of the worlds: the second settings object is the first one with the with_mods flag of every
    // override flipped (and an override added if there is none) - settings that differ in one bit of one field
    if t.chance(1, 4) {
        let mut twin = dspecs[0].clone();
        if twin.ar.is_none() && twin.od.is_none() {
            twin.od = Some((8.0, false));
            dspecs[0].od = Some((8.0, true));
            twin.mods.bits |= crate::gen::diff::HR;
            dspecs[0].mods.bits |= crate::gen::diff::HR;
        } else {
            for o in [&mut twin.ar, &mut twin.cs, &mut twin.hp, &mut twin.od] {
                if let Some((_, w)) = o {
                    *w = !*w;
                }
            }
        }
        dspecs[1] = twin;
    }
    let score = gen_score_spec(t, 20);
    let n_jobs = t.range(8, 64) as usize;
    let jobs = (0..n_jobs)
        .map(|_| Job {
            map: if t.chance(1, 2) { 0 } else { t.below_usize(n_maps) },
            kind: if seed_heavy { *t.pick(&[2u8, 2, 3, 4, 5, 7]) } else if conversion_heavy { *t.pick(&[1u8, 1, 2, 2, 3]) } else if tie_world { *t.pick(&[6u8, 6, 6, 2, 0, 1, 3, 4, 5]) } else { t.below(8) as u8 },
            mode: if seed_heavy { *t.pick(&[1u8, 3]) } else if conversion_heavy { *t.pick(&[3u8, 3, 3, 1]) } else { *t.pick(&[1u8, 1, 0, 2, 3]) },
            d: t.below_usize(3),
            yields: t.below(4) as u8,
            spin: if t.chance(1, 4) { t.range(0, 5000) as u16 } else { 0 },
        })
        .collect();
    (World { specs, texts, maps, dspecs, score, seed_heavy, conversion_heavy }, jobs)
}

fn case_pool(t: &mut Tape, info: &mut CaseInfo) -> Result<(), String> {
    let (w, jobs) = gen_world(t);
    let n_threads = t.range(2, 16) as usize;
    let shared_queue = t.coin();
    let use_arc = t.coin();
    let assignment: Vec<usize> = jobs.iter().map(|_| t.below_usize(n_threads)).collect();
    if info.want_sample {
        info.sample = Some(json!({"maps": w.specs.iter().map(MapSpec::sample).collect::<Vec<_>>(), "jobs": format!("{jobs:?}").chars().take(1200).collect::<String>(),
                                  "threads": n_threads, "shared_queue": shared_queue, "sharing": if use_arc { "Arc<Beatmap>" } else { "&Beatmap via thread::scope" }}));
    }
    // sequential reference: before the threaded run in half of the cases, after it in the other half (a value
    // cached by the first pass must not hide what the second pass would compute)
    let sequential_first = t.coin();
    let mut sequential: Vec<String> = if sequential_first { jobs.iter().map(|j| run_job(&w, &w.maps[j.map], j)).collect() } else { Vec::new() };
    // threaded run
    let results: Vec<Mutex<Option<String>>> = jobs.iter().map(|_| Mutex::new(None)).collect();
    let next = AtomicUsize::new(0);
    if use_arc {
        let arcs: Vec<Arc<Beatmap>> = w.maps.iter().cloned().map(Arc::new).collect();
        std::thread::scope(|s| {
            for th in 0..n_threads {
                let arcs: Vec<Arc<Beatmap>> = arcs.iter().map(Arc::clone).collect();
                let (w, jobs, results, next, assignment) = (&w, &jobs, &results, &next, &assignment);
                s.spawn(move || loop_jobs(w, jobs, results, next, assignment, th, shared_queue, &|i| arcs[i].as_ref()));
            }
        });
    } else {
        std::thread::scope(|s| {
            for th in 0..n_threads {
                let (w, jobs, results, next, assignment) = (&w, &jobs, &results, &next, &assignment);
                s.spawn(move || loop_jobs(w, jobs, results, next, assignment, th, shared_queue, &|i| &w.maps[i]));
            }
        });
    }
    if !sequential_first {
        sequential = jobs.iter().map(|j| run_job(&w, &w.maps[j.map], j)).collect();
    }
    for (i, (seq, par)) in sequential.iter().zip(&results).enumerate() {
        let par = par.lock().unwrap().clone();
        info.comparisons += 1;
        if par.as_deref() != Some(seq.as_str()) {
            return Err(format!("job #{i} {:?}: threaded result differs from the sequential run ({:?} vs {seq:?})", jobs[i], par.map(|p| p.chars().take(120).collect::<String>())));
        }
    }
    let shares_map = {
        let mut per_thread: Vec<std::collections::HashSet<usize>> = vec![Default::default(); n_threads];
        for (j, a) in jobs.iter().zip(&assignment) {
            per_thread[*a].insert(j.map);
        }
        shared_queue || (0..w.maps.len()).any(|m| per_thread.iter().filter(|s| s.contains(&m)).count() >= 2)
    };
    let has_taiko = jobs.iter().any(|j| target_for(&w.maps[j.map], j.mode) == GameMode::Taiko && j.kind >= 2);
    info.label(format!("threads={}", if n_threads <= 4 { "2-4" } else if n_threads <= 8 { "5-8" } else { "9-16" }));
    info.label(if shared_queue { "shared-queue" } else { "static-partition" });
    info.label(if use_arc { "Arc" } else { "scope-ref" });
    info.label_if(w.seed_heavy, "seed-heavy(lazer Random mods with distinct seeds)");
    info.label_if(w.conversion_heavy, "conversion-heavy(osu maps converted concurrently)");
    info.nontrivial = shares_map && has_taiko;
    info.set_key(&format!("{:?}{jobs:?}{n_threads}{shared_queue}{use_arc}{assignment:?}", w.specs));
    Ok(())
}

#[allow(clippy::too_many_arguments)]
fn loop_jobs<'a>(
    w: &World,
    jobs: &[Job],
    results: &[Mutex<Option<String>>],
    next: &AtomicUsize,
    assignment: &[usize],
    me: usize,
    shared_queue: bool,
    map_of: &dyn Fn(usize) -> &'a Beatmap,
) {
    if shared_queue {
        loop {
            let i = next.fetch_add(1, Ordering::SeqCst);
            if i >= jobs.len() {
                break;
            }
            *results[i].lock().unwrap() = Some(run_job(w, map_of(jobs[i].map), &jobs[i]));
        }
    } else {
        for (i, job) in jobs.iter().enumerate() {
            if assignment[i] == me {
                *results[i].lock().unwrap() = Some(run_job(w, map_of(job.map), job));
            }
        }
    }
}

/// Hand a gradual calculator around a ring of threads between steps.
fn case_handover(t: &mut Tape, info: &mut CaseInfo) -> Result<(), String> {
    let mut spec = gen_map(t, &MapProfile::small(ALL_MODES, 25));
    // sync build, a fifth of the cases: one taiko colour for 130-400 consecutive hits (a mono streak far longer
    // than in any fixture), so that per-streak bookkeeping is exercised across hand-overs
    let mono = cfg!(feature = "sync") && t.chance(1, 5);
    if mono {
        let n = t.range(130, 400) as usize;
        let sound = *t.pick(&[0u8, 8]);
        let mut time = 0.0;
        spec.mode = t.below(2) as u8;
        spec.objects = (0..n)
            .map(|_| {
                time += *t.pick(&[150.0, 100.0, 200.0, 300.0, 75.0]);
                crate::gen::map::ObjSpec { x: 256, y: 192, time, kind: crate::gen::map::ObjKind::Circle, sound, custom_sample: false }
            })
            .collect();
        info.label("taiko-mono-streak>=130");
    }
    // with the `sync` feature every mode's calculator is Send; without it only the non-taiko ones
    let target = if mono {
        GameMode::Taiko
    } else if cfg!(feature = "sync") {
        if spec.mode == 0 {
            mode_of(*t.pick(&[1u8, 1, 0, 2, 3]))
        } else {
            mode_of(spec.mode)
        }
    } else if spec.mode == 0 {
        mode_of(*t.pick(&[0u8, 2, 3]))
    } else {
        mode_of(spec.mode)
    };
    let dspec = gen_diff(t, &DiffProfile::realistic(), target);
    let map = spec.decode();
    if !cfg!(feature = "sync") && target == GameMode::Taiko {
        info.label("skipped:taiko-needs-sync");
        return Ok(());
    }
    if !gradual_ok(&map, target, &dspec) {
        info.excluded_known += 1;
        return Ok(());
    }
    let d = dspec.build(target);
    let n_threads = t.range(2, 8) as usize;
    let reference: Vec<String> = GradualDifficulty::new_with_mode(d.clone(), &map, target).map_err(|e| e.to_string())?.map(|a| a.dump().line()).collect();
    // which thread performs step j
    let schedule: Vec<usize> = (0..reference.len() + 1).map(|_| t.below_usize(n_threads)).collect();
    if info.want_sample {
        info.sample = Some(json!({"map": spec.sample(), "target": format!("{target:?}"), "difficulty": dspec.describe(), "threads": n_threads, "step_owner": schedule}));
    }
    let got = handover(d, &map, target, n_threads, &schedule)?;
    info.comparisons += 1;
    if got != reference {
        let first = got.iter().zip(&reference).position(|(a, b)| a != b).unwrap_or(got.len().min(reference.len()));
        return Err(format!("handed-over calculator diverges from the single-thread sequence at step {first} ({} vs {} values)", got.len(), reference.len()));
    }
    let handovers = schedule.windows(2).filter(|w| w[0] != w[1]).count();
    info.label(format!("target={target:?}"));
    info.nontrivial = handovers >= 2 && reference.len() >= 2;
    info.set_key(&format!("{spec:?}{dspec:?}{target:?}{schedule:?}"));
    Ok(())
}

#[cfg(feature = "sync")]
fn handover(d: rosu_pp::Difficulty, map: &Beatmap, target: GameMode, n_threads: usize, schedule: &[usize]) -> Result<Vec<String>, String> {
    let g = GradualDifficulty::new_with_mode(d, map, target).map_err(|e| e.to_string())?;
    ring(g, n_threads, schedule, |g| g.next().map(|a| a.dump().line()))
}

#[cfg(not(feature = "sync"))]
fn handover(d: rosu_pp::Difficulty, map: &Beatmap, target: GameMode, n_threads: usize, schedule: &[usize]) -> Result<Vec<String>, String> {
    use rosu_pp::{any::DifficultyAttributes, catch::CatchGradualDifficulty, mania::ManiaGradualDifficulty, osu::OsuGradualDifficulty};
    match target {
        GameMode::Osu => ring(OsuGradualDifficulty::new(d, map).map_err(|e| e.to_string())?, n_threads, schedule, |g| g.next().map(|a| DifficultyAttributes::Osu(a).dump().line())),
        GameMode::Catch => ring(CatchGradualDifficulty::new(d, map).map_err(|e| e.to_string())?, n_threads, schedule, |g| g.next().map(|a| DifficultyAttributes::Catch(a).dump().line())),
        GameMode::Mania => ring(ManiaGradualDifficulty::new(d, map).map_err(|e| e.to_string())?, n_threads, schedule, |g| g.next().map(|a| DifficultyAttributes::Mania(a).dump().line())),
        GameMode::Taiko => Err("taiko gradual calculators are only Send with the sync feature".into()),
    }
}

/// Each thread owns a channel; the calculator travels by value to the owner of the next step.
fn ring<G: Send>(g: G, n_threads: usize, schedule: &[usize], step: fn(&mut G) -> Option<String>) -> Result<Vec<String>, String> {
    use std::sync::mpsc::{channel, Sender};
    // `None` tells a ring member to leave (every member holds clones of all senders, so the channels
    // never close by themselves)
    type Msg<G> = Option<(G, usize, Vec<String>)>;
    let (done_tx, done_rx) = channel::<Vec<String>>();
    let mut senders: Vec<Sender<Msg<G>>> = Vec::new();
    let mut receivers = Vec::new();
    for _ in 0..n_threads {
        let (tx, rx) = channel::<Msg<G>>();
        senders.push(tx);
        receivers.push(rx);
    }
    std::thread::scope(|s| {
        for (me, rx) in receivers.into_iter().enumerate() {
            let senders = senders.clone();
            let done_tx = done_tx.clone();
            s.spawn(move || {
                while let Ok(Some((mut g, mut j, mut out))) = rx.recv() {
                    // perform every consecutive step this thread owns
                    loop {
                        match step(&mut g) {
                            Some(line) => out.push(line),
                            None => {
                                let _ = done_tx.send(out);
                                break;
                            }
                        }
                        j += 1;
                        let owner = schedule.get(j).copied().unwrap_or(0);
                        if owner != me {
                            let _ = senders[owner].send(Some((g, j, out)));
                            break;
                        }
                    }
                }
            });
        }
        let first = schedule.first().copied().unwrap_or(0);
        let _ = senders[first].send(Some((g, 0, Vec::new())));
        let out = done_rx.recv_timeout(std::time::Duration::from_secs(120)).map_err(|e| format!("harness: ring did not finish: {e}"));
        for tx in &senders {
            let _ = tx.send(None);
        }
        out
    })
}

/// All threads start the *same* calculation on the *same* shared map at the same instant (std barrier, then a spin
/// barrier), on a map this process has never seen: whatever a first use of a value fills lazily (a table, a memo, a
/// once-cell) is filled by several threads at once. The sequential reference is computed afterwards.
fn case_first_use(t: &mut Tape, info: &mut CaseInfo) -> Result<(), String> {
    let (w, jobs) = gen_world(t);
    let n_threads = t.range(2, 8) as usize;
    // the distinct (map, kind, mode, settings) jobs of the world, each run once by every thread
    let mut rounds: Vec<Job> = Vec::new();
    for j in &jobs {
        if rounds.len() < 6 && j.kind != 0 && !rounds.iter().any(|r| (r.map, r.kind, r.mode, r.d) == (j.map, j.kind, j.mode, j.d)) {
            rounds.push(Job { yields: 0, spin: 0, ..j.clone() });
        }
    }
    if info.want_sample {
        info.sample = Some(json!({"maps": w.specs.iter().map(MapSpec::sample).collect::<Vec<_>>(), "rounds": format!("{rounds:?}").chars().take(600).collect::<String>(), "threads": n_threads}));
    }
    let barrier = std::sync::Barrier::new(n_threads);
    let arrived = AtomicUsize::new(0);
    let per_thread: Vec<Vec<String>> = std::thread::scope(|s| {
        let handles: Vec<_> = (0..n_threads)
            .map(|_| {
                let (w, rounds, barrier, arrived) = (&w, &rounds, &barrier, &arrived);
                s.spawn(move || {
                    let mut out = Vec::with_capacity(rounds.len());
                    for (r, job) in rounds.iter().enumerate() {
                        barrier.wait();
                        arrived.fetch_add(1, Ordering::AcqRel);
                        let target = (r + 1) * n_threads;
                        let mut spins = 0u32;
                        while arrived.load(Ordering::Acquire) < target && spins < 2_000_000 {
                            std::hint::spin_loop();
                            spins += 1;
                        }
                        // a panicking job must not leave the other threads waiting at the next barrier
                        out.push(std::panic::catch_unwind(std::panic::AssertUnwindSafe(|| run_job(w, &w.maps[job.map], job))).unwrap_or_else(|_| "panicked".into()));
                    }
                    out
                })
            })
            .collect();
        handles.into_iter().map(|h| h.join().expect("worker thread panicked")).collect()
    });
    for (r, job) in rounds.iter().enumerate() {
        let seq = run_job(&w, &w.maps[job.map], job);
        for (th, out) in per_thread.iter().enumerate() {
            info.comparisons += 1;
            if out[r] != seq {
                return Err(format!("round #{r} {job:?}: thread {th} of {n_threads} starting the same calculation at the same instant got a result that differs from the sequential run afterwards ({:?} vs {seq:?})", out[r].chars().take(120).collect::<String>()));
            }
        }
    }
    info.label(format!("threads={}", if n_threads <= 4 { "2-4" } else { "5-8" }));
    info.label(format!("rounds={}", rounds.len()));
    info.nontrivial = rounds.iter().any(|j| j.kind >= 2 && j.kind != 6);
    info.set_key(&format!("{:?}{rounds:?}{n_threads}", w.specs));
    Ok(())
}

pub fn property() -> Property {
    Property {
        id: "C20",
        subchecks: vec![
            SubCheck {
                name: "thread-pool-vs-sequential",
                rule: "job list of 8-64 jobs over 2-4 maps (decode, convert_ref, difficulty, strains, performance, gradual drain, bpm, generic Difficulty::calculate; half of the jobs on map 0 so maps are shared) x thread count 2..16 x assignment (generated static partition or shared atomic queue) x sharing mode (&Beatmap through thread::scope or Arc<Beatmap>) x per-job perturbation (0-3 yield_now, optional spin); a third of the job lists is seed-heavy (taiko/mania calculations under lazer Random mods with distinct seeds per settings object), a quarter conversion-heavy (2-4 different osu maps of up to 60 objects converted to mania/taiko concurrently), a tenth of the maps are marathons (all gaps 100-300 s), a fifth of the ordinary worlds has a tie-heavy map 0 (equal accumulated beat-length durations) with mostly bpm jobs. a quarter of the worlds has two settings objects that differ only in the with_mods flags of their overrides. Oracle: the result vector of the threaded run equals the sequential run of the same job list (the sequential pass runs before the threaded one in half of the cases and after it in the other half) (canonical lines / digests). Run on the default and the `sync` build (thorough: additionally under ThreadSanitizer). Non-trivial: >=2 threads touch the same map and >=1 taiko calculation job.",
                quick: 1500,
                thorough: 25_000,
                tape_len: 3400,
                f: case_pool,
                direct: None,
            },
            SubCheck {
                name: "simultaneous-first-use",
                rule: "the worlds of the first sub-check; up to 6 distinct jobs (convert_ref, difficulty, strains, performance, gradual drain, bpm, generic calculate) are each started by 2-8 threads at the same instant (std barrier followed by a spin barrier) on the same shared map, which this process has not seen before, so that whatever is filled lazily on first use is filled by several threads at once. Oracle: every thread's result equals the sequential run performed afterwards (all fields). Non-trivial: at least one calculating job.",
                quick: 1500,
                thorough: 25_000,
                tape_len: 3400,
                f: case_first_use,
                direct: None,
            },
            SubCheck {
                name: "gradual-handover-ring",
                rule: "a gradual difficulty calculator (sync build: every mode incl. taiko and converts; default build: the Send ones, i.e. osu/catch/mania types) is handed by value around a ring of 2-8 threads over channels; a generated schedule says which thread performs step j; in the sync build a fifth of the maps is a single-colour taiko stream of 130-400 hits. Oracle: the produced sequence equals the single-thread sequence (all fields). Non-trivial: >=2 hand-overs and >=2 values.",
                quick: 1500,
                thorough: 25_000,
                tape_len: 2200,
                f: case_handover,
                direct: None,
            },
        ],
        assumptions: &["the harness owns assignments, hand-over points and perturbations, not the OS interleaving: all schedules are not enumerable from user space (DESIGN.md §6)"],
        enumerate: None,
    }
}
