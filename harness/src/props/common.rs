//! Helpers shared by the per-property oracles.

use rosu_pp::{
    any::{DifficultyAttributes, PerformanceAttributes, ScoreState, Strains},
    catch::Catch,
    mania::Mania,
    model::{hit_object::HitObject, mode::GameMode},
    osu::Osu,
    taiko::Taiko,
    Beatmap, Difficulty,
};

use crate::{
    engine::CaseInfo,
    gen::{
        diff::mode_of,
        map::{MapSpec, ObjKind},
    },
    known,
    tape::Tape,
};

pub const MODES: [GameMode; 4] = [GameMode::Osu, GameMode::Taiko, GameMode::Catch, GameMode::Mania];

pub fn mode_idx(m: GameMode) -> u8 {
    match m {
        GameMode::Osu => 0,
        GameMode::Taiko => 1,
        GameMode::Catch => 2,
        GameMode::Mania => 3,
    }
}

/// `Difficulty::calculate_for_mode::<M>` dispatched on a runtime mode.
pub fn calc_for_mode(d: &Difficulty, map: &Beatmap, mode: GameMode) -> Result<DifficultyAttributes, String> {
    match mode {
        GameMode::Osu => d.calculate_for_mode::<Osu>(map).map(DifficultyAttributes::Osu),
        GameMode::Taiko => d.calculate_for_mode::<Taiko>(map).map(DifficultyAttributes::Taiko),
        GameMode::Catch => d.calculate_for_mode::<Catch>(map).map(DifficultyAttributes::Catch),
        GameMode::Mania => d.calculate_for_mode::<Mania>(map).map(DifficultyAttributes::Mania),
    }
    .map_err(|e| format!("calculate_for_mode({mode:?}) failed: {e}"))
}

pub fn strains_for_mode(d: &Difficulty, map: &Beatmap, mode: GameMode) -> Result<Strains, String> {
    // (on a clone of the settings: a Clone that loses a field would make strains and calculate disagree)
    let d = &d.clone();
    match mode {
        GameMode::Osu => d.strains_for_mode::<Osu>(map).map(Strains::Osu),
        GameMode::Taiko => d.strains_for_mode::<Taiko>(map).map(Strains::Taiko),
        GameMode::Catch => d.strains_for_mode::<Catch>(map).map(Strains::Catch),
        GameMode::Mania => d.strains_for_mode::<Mania>(map).map(Strains::Mania),
    }
    .map_err(|e| format!("strains_for_mode({mode:?}) failed: {e}"))
}

/// `Difficulty::gradual_difficulty_for_mode::<M>` dispatched on a runtime mode, drained.
pub fn mode_gradual_difficulty(d: &Difficulty, map: &Beatmap, mode: GameMode) -> Result<Vec<DifficultyAttributes>, String> {
    let d = d.clone();
    match mode {
        GameMode::Osu => d.gradual_difficulty_for_mode::<Osu>(map).map(|g| g.map(DifficultyAttributes::Osu).collect()),
        GameMode::Taiko => d.gradual_difficulty_for_mode::<Taiko>(map).map(|g| g.map(DifficultyAttributes::Taiko).collect()),
        GameMode::Catch => d.gradual_difficulty_for_mode::<Catch>(map).map(|g| g.map(DifficultyAttributes::Catch).collect()),
        GameMode::Mania => d.gradual_difficulty_for_mode::<Mania>(map).map(|g| g.map(DifficultyAttributes::Mania).collect()),
    }
    .map_err(|e| format!("gradual_difficulty_for_mode({mode:?}) failed: {e}"))
}

/// The mode-specific gradual difficulty calculator, `k` values consumed, then one consuming call by value:
/// (`count()`, `last()`), each on its own calculator.
pub fn mode_gradual_terminal(d: &Difficulty, map: &Beatmap, mode: GameMode, k: usize) -> Result<(usize, Option<DifficultyAttributes>), String> {
    macro_rules! run {
        ($m:ty, $variant:ident) => {{
            let mk = || d.clone().gradual_difficulty_for_mode::<$m>(map).map_err(|e| format!("gradual_difficulty_for_mode({mode:?}) failed: {e}"));
            let mut a = mk()?;
            let mut b = mk()?;
            for _ in 0..k {
                let _ = a.next();
                let _ = b.next();
            }
            Ok((a.count(), b.last().map(DifficultyAttributes::$variant)))
        }};
    }
    match mode {
        GameMode::Osu => run!(Osu, Osu),
        GameMode::Taiko => run!(Taiko, Taiko),
        GameMode::Catch => run!(Catch, Catch),
        GameMode::Mania => run!(Mania, Mania),
    }
}

/// `Difficulty::gradual_performance_for_mode::<M>` dispatched on a runtime mode and walked with the
/// mode-specific calculator's own `next` (every state but the last) and `last` (the last state);
/// also reports `len()` before and after.
pub fn mode_gradual_performance_walk(d: &Difficulty, map: &Beatmap, mode: GameMode, states: &[ScoreState]) -> Result<(usize, Vec<Option<PerformanceAttributes>>, usize), String> {
    macro_rules! walk {
        ($m:ty, $variant:ident) => {{
            let mut g = d.clone().gradual_performance_for_mode::<$m>(map).map_err(|e| format!("gradual_performance_for_mode({mode:?}) failed: {e}"))?;
            let before = g.len();
            let mut out = Vec::new();
            for (i, s) in states.iter().enumerate() {
                let r = if i + 1 == states.len() { g.last(s.clone().into()) } else { g.next(s.clone().into()) };
                out.push(r.map(PerformanceAttributes::$variant));
            }
            Ok((before, out, g.len()))
        }};
    }
    match mode {
        GameMode::Osu => walk!(Osu, Osu),
        GameMode::Taiko => walk!(Taiko, Taiko),
        GameMode::Catch => walk!(Catch, Catch),
        GameMode::Mania => walk!(Mania, Mania),
    }
}

/// Number of "passed objects" units the attributes account for (the unit `passed_objects` counts in).
pub fn units(a: &DifficultyAttributes) -> u32 {
    match a {
        DifficultyAttributes::Osu(a) => a.n_objects(),
        DifficultyAttributes::Taiko(a) => a.max_combo,
        DifficultyAttributes::Catch(a) => a.n_fruits + a.n_droplets,
        DifficultyAttributes::Mania(a) => a.n_objects,
    }
}

/// Pick the mode to calculate in: the map's own, or (for osu maps) any conversion target.
pub fn pick_target(t: &mut Tape, map_mode: u8) -> GameMode {
    if map_mode == 0 {
        mode_of(*t.pick(&[0u8, 0, 1, 2, 3]))
    } else {
        mode_of(map_mode)
    }
}

/// Open findings F2a/F2b (taiko gradual bookkeeping). Classes, decidable on the (converted) taiko map:
/// F2a: 1–2 objects, or the first two objects are not both hits;
/// F2b: the last object is not a hit (trailing drum roll / swell).
pub const K_TAIKO_FIRST_TWO: &str = "C02/taiko-gradual-first-two";
pub const K_TAIKO_TRAILING: &str = "C02/taiko-gradual-trailing-non-hit";

pub fn in_taiko_first_two_class(objs: &[HitObject]) -> bool {
    match objs {
        [] => false,
        [_] | [_, _] => true,
        [a, b, ..] => !(a.is_circle() && b.is_circle()),
    }
}

pub fn in_taiko_trailing_class(objs: &[HitObject]) -> bool {
    objs.last().is_some_and(|z| !z.is_circle())
}

/// Whether the taiko map falls into a class of an *open* finding.
pub fn in_open_taiko_class(objs: &[HitObject]) -> bool {
    (known::is_open(K_TAIKO_FIRST_TWO) && in_taiko_first_two_class(objs))
        || (known::is_open(K_TAIKO_TRAILING) && in_taiko_trailing_class(objs))
}

/// Steer a spec out of the open classes by construction (counted as `excluded_known`).
pub fn steer_taiko(spec: &mut MapSpec, target: GameMode, info: &mut CaseInfo) {
    if target != GameMode::Taiko || spec.objects.is_empty() {
        return;
    }
    let mut changed = false;
    if known::is_open(K_TAIKO_FIRST_TWO) {
        while spec.objects.len() < 3 {
            let mut o = spec.objects.last().unwrap().clone();
            o.kind = ObjKind::Circle;
            o.time += 250.0;
            spec.objects.push(o);
            changed = true;
        }
        for i in [0, 1] {
            if spec.objects[i].kind != ObjKind::Circle {
                spec.objects[i].kind = ObjKind::Circle;
                changed = true;
            }
        }
    }
    if known::is_open(K_TAIKO_TRAILING) {
        let last = spec.objects.len() - 1;
        if spec.objects[last].kind != ObjKind::Circle {
            spec.objects[last].kind = ObjKind::Circle;
            changed = true;
        }
    }
    if changed {
        info.excluded_known += 1;
    }
}

/// After decoding/conversion: is the case still inside an open taiko class? (then it is skipped and counted)
pub fn skip_open_taiko(map: &Beatmap, d: &Difficulty, target: GameMode, info: &mut CaseInfo) -> Result<bool, String> {
    if target != GameMode::Taiko || !(known::is_open(K_TAIKO_FIRST_TWO) || known::is_open(K_TAIKO_TRAILING)) {
        return Ok(false);
    }
    let conv = map.clone().convert(GameMode::Taiko, &d.clone().inspect().mods).map_err(|e| e.to_string())?;
    if in_open_taiko_class(&conv.hit_objects) {
        info.excluded_known += 1;
        info.label("skipped:open-taiko-class");
        return Ok(true);
    }
    Ok(false)
}

pub fn has_long_gap(map: &Beatmap) -> bool {
    map.hit_objects.windows(2).any(|w| w[1].start_time - w[0].start_time >= 5000.0)
}

use rosu_pp::{
    catch::CatchPerformance, mania::ManiaPerformance, osu::OsuPerformance, taiko::TaikoPerformance, Performance,
};

/// Mode-specific performance builder on a map (conversion of osu! maps happens inside `calculate`).
pub fn perf_for_mode(map: &Beatmap, mode: GameMode) -> Performance<'_> {
    match mode {
        GameMode::Osu => Performance::Osu(OsuPerformance::new(map)),
        GameMode::Taiko => Performance::Taiko(TaikoPerformance::new(map)),
        GameMode::Catch => Performance::Catch(CatchPerformance::new(map)),
        GameMode::Mania => Performance::Mania(ManiaPerformance::new(map)),
    }
}

/// The mode-specific builder given the map *by value* (`<Mode>Performance::new(map)` / `::from(map)`).
pub fn perf_for_mode_owned(map: Beatmap, mode: GameMode, via_from: bool) -> Performance<'static> {
    match (mode, via_from) {
        (GameMode::Osu, false) => Performance::Osu(OsuPerformance::new(map)),
        (GameMode::Taiko, false) => Performance::Taiko(TaikoPerformance::new(map)),
        (GameMode::Catch, false) => Performance::Catch(CatchPerformance::new(map)),
        (GameMode::Mania, false) => Performance::Mania(ManiaPerformance::new(map)),
        (GameMode::Osu, true) => Performance::Osu(OsuPerformance::from(map)),
        (GameMode::Taiko, true) => Performance::Taiko(TaikoPerformance::from(map)),
        (GameMode::Catch, true) => Performance::Catch(CatchPerformance::from(map)),
        (GameMode::Mania, true) => Performance::Mania(ManiaPerformance::from(map)),
    }
}

/// The mods a `Difficulty` carries.
pub fn mods_of(d: &Difficulty) -> rosu_pp::GameMods {
    d.clone().inspect().mods
}

/// Standard prelude of map-based cases: map spec, target mode, settings (steered out of open classes).
pub struct MapCase {
    pub spec: MapSpec,
    pub text: String,
    pub map: Beatmap,
    pub target: GameMode,
    pub dspec: crate::gen::diff::DiffSpec,
    pub d: Difficulty,
}

pub fn gen_map_case(
    t: &mut Tape,
    info: &mut CaseInfo,
    profile: &crate::gen::map::MapProfile,
    dprof: &crate::gen::diff::DiffProfile,
    steer_gradual_taiko: bool,
) -> MapCase {
    let mut spec = crate::gen::map::gen_map(t, profile);
    let target = pick_target(t, spec.mode);
    if steer_gradual_taiko {
        steer_taiko(&mut spec, target, info);
    }
    let mut dprof = dprof.clone();
    if let Some(n) = dprof.with_passed.as_mut() {
        *n = spec.objects.len() as u32;
    }
    let dspec = crate::gen::diff::gen_diff(t, &dprof, target);
    let text = spec.render();
    let map = spec.decode();
    let d = dspec.build(target);
    crate::gen::map::map_labels(&spec, info);
    info.label(format!("target={target:?}"));
    info.label_if(spec.mode == 0 && target != GameMode::Osu, "convert");
    info.label_if(!dspec.is_default(), "non-default-difficulty");
    MapCase { spec, text, map, target, dspec, d }
}
