//! C13 — accuracy-driven hit results are the closest achievable to the target.

use rosu_pp::{
    any::ScoreState,
    catch::CatchScoreState,
    mania::ManiaScoreState,
    osu::{OsuScoreOrigin, OsuScoreState},
    taiko::TaikoScoreState,
};
use serde_json::{json, Value};

use super::{
    c12::{origin_from_name, shape_from_json, shape_json, Origin, Provided, Shape},
    EnumReport, Property,
};
use crate::{
    engine::{CaseInfo, SubCheck},
    tape::Tape,
};

const TOL: f64 = 1e-12;

/// (n_obj, N) as in C12: objects of the map, judgements the mode expects.
fn sizes(shape: &Shape, origin: Origin) -> (u32, u32) {
    match *shape {
        Shape::Osu { circles, sliders, spinners, .. } => (circles + sliders + spinners, circles + sliders + spinners),
        Shape::Taiko { max_combo } => (max_combo, max_combo),
        Shape::Catch { fruits, droplets, .. } => (fruits + droplets, fruits + droplets),
        Shape::Mania { objects, holds } => (objects, objects + if origin.mania_classic() { 0 } else { holds.min(objects) }),
    }
}

fn osu_origin(shape: &Shape, origin: Origin) -> OsuScoreOrigin {
    let Shape::Osu { sliders, large_ticks, .. } = *shape else { return OsuScoreOrigin::Stable };
    match origin {
        Origin::Stable | Origin::StableClassicHeadAcc => OsuScoreOrigin::Stable,
        Origin::Lazer | Origin::LazerClassicHeadAcc => OsuScoreOrigin::WithSliderAcc { max_large_ticks: large_ticks, max_slider_ends: sliders },
        Origin::LazerClassic => OsuScoreOrigin::WithoutSliderAcc { max_large_ticks: sliders + large_ticks, max_small_ticks: sliders },
    }
}

/// Accuracy of a generated (generic) state with the public per-mode accuracy function.
fn accuracy_of(shape: &Shape, origin: Origin, s: &ScoreState) -> f64 {
    match shape {
        Shape::Osu { .. } => OsuScoreState::from(s.clone()).accuracy(osu_origin(shape, origin)),
        Shape::Taiko { .. } => TaikoScoreState::from(s.clone()).accuracy(),
        Shape::Catch { .. } => CatchScoreState::from(s.clone()).accuracy(),
        Shape::Mania { .. } => ManiaScoreState::from(s.clone()).accuracy(origin.mania_classic()),
    }
}

/// All achievable accuracies for the shape with `misses` misses, the slider parts fixed as in `template`.
fn achievable(shape: &Shape, origin: Origin, n_total: u32, misses: u32, template: &ScoreState) -> Vec<f64> {
    let rem = n_total - misses;
    let mut out = Vec::new();
    match shape {
        Shape::Osu { .. } => {
            let o = osu_origin(shape, origin);
            for n300 in 0..=rem {
                for n100 in 0..=rem - n300 {
                    let s = OsuScoreState {
                        max_combo: 0,
                        large_tick_hits: template.osu_large_tick_hits,
                        small_tick_hits: template.osu_small_tick_hits,
                        slider_end_hits: template.slider_end_hits,
                        n300,
                        n100,
                        n50: rem - n300 - n100,
                        misses,
                    };
                    out.push(s.accuracy(o));
                }
            }
        }
        Shape::Taiko { .. } => {
            for n300 in 0..=rem {
                out.push(TaikoScoreState { max_combo: 0, n300, n100: rem - n300, misses }.accuracy());
            }
        }
        Shape::Catch { tiny, .. } => {
            // fruits + droplets are determined by the misses; only the tiny droplets vary
            for t in 0..=*tiny {
                out.push(CatchScoreState { max_combo: 0, fruits: template.n300, droplets: template.n100, tiny_droplets: t, tiny_droplet_misses: tiny - t, misses }.accuracy());
            }
        }
        Shape::Mania { .. } => {
            let classic = origin.mania_classic();
            for n320 in 0..=rem {
                for n300 in 0..=rem - n320 {
                    for n200 in 0..=rem - n320 - n300 {
                        for n100 in 0..=rem - n320 - n300 - n200 {
                            let n50 = rem - n320 - n300 - n200 - n100;
                            out.push(ManiaScoreState { n320, n300, n200, n100, n50, misses }.accuracy(classic));
                        }
                    }
                }
            }
        }
    }
    out.sort_by(f64::total_cmp);
    out.dedup();
    out
}

/// The oracle for one (shape, origin, misses, priority, target).
fn check_target(shape: &Shape, origin: Origin, misses: Option<u32>, worst: bool, target: f64, cache: &mut Option<(u32, Vec<f64>)>, passed: Option<u32>) -> Result<bool, String> {
    check_target_via(shape, origin, misses, worst, target, cache, 0, passed)
}

#[allow(clippy::too_many_arguments)]
fn check_target_via(shape: &Shape, origin: Origin, misses: Option<u32>, worst: bool, target: f64, cache: &mut Option<(u32, Vec<f64>)>, route: u8, passed: Option<u32>) -> Result<bool, String> {
    let p = Provided { accuracy: Some(target), misses, worst_case: Some(worst), via_setters: route == 1, via_inspect: route.saturating_sub(1), passed, ..Provided::default() };
    let s = p.apply(shape.attrs(), origin).generate_state();
    let (mut n_obj, mut n_total) = sizes(shape, origin);
    // a passed_objects prefix on attribute-based calculators (osu!, taiko): that many objects are judged
    if let (Some(k), Shape::Osu { .. } | Shape::Taiko { .. }) = (passed, shape) {
        n_obj = n_obj.min(k);
        n_total = n_total.min(k);
    }
    let expect_misses = misses.unwrap_or(0).min(n_obj);
    if s.misses != expect_misses {
        return Err(format!("misses: provided {misses:?}, {n_obj} objects, state has {}", s.misses));
    }
    let total: u32 = match shape {
        Shape::Osu { .. } => s.n300 + s.n100 + s.n50 + s.misses,
        Shape::Taiko { .. } => s.n300 + s.n100 + s.misses,
        Shape::Catch { .. } => s.n300 + s.n100 + s.misses,
        Shape::Mania { .. } => s.n_geki + s.n300 + s.n_katu + s.n100 + s.n50 + s.misses,
    };
    if total != n_total {
        return Err(format!("state does not distribute exactly N={n_total} judgements: {s:?}"));
    }
    if cache.as_ref().is_none_or(|c| c.0 != s.misses) {
        *cache = Some((s.misses, achievable(shape, origin, n_total, s.misses, &s)));
    }
    let accs = &cache.as_ref().unwrap().1;
    let t = target.clamp(0.0, 100.0) / 100.0;
    let best = accs.iter().map(|a| (a - t).abs()).fold(f64::INFINITY, f64::min);
    let got = (accuracy_of(shape, origin, &s) - t).abs();
    if got > best + TOL {
        return Err(format!(
            "target accuracy {target}: generated state {s:?} has accuracy {} (distance {got}), but a distribution with distance {best} exists",
            accuracy_of(shape, origin, &s)
        ));
    }
    let lo = accs.first().copied().unwrap_or(0.0);
    let hi = accs.last().copied().unwrap_or(0.0);
    Ok(n_total - s.misses >= 2 && t > lo && t < hi)
}

/// Critical grid of targets: every achievable accuracy, midpoints, each +-1e-9, plus 0, 100 and a 0.5% lattice.
fn critical_targets(accs: &[f64]) -> Vec<f64> {
    let mut t = vec![0.0, 100.0];
    for (i, a) in accs.iter().enumerate() {
        let a = a * 100.0;
        t.extend([a, a - 1e-7, a + 1e-7]);
        if let Some(b) = accs.get(i + 1) {
            let m = (a + b * 100.0) / 2.0;
            t.extend([m, m - 1e-7, m + 1e-7, m - 2e-9, m + 2e-9]);
        }
    }
    let mut k = 0.0;
    while k <= 100.0 {
        t.push(k);
        k += 0.5;
    }
    t
}

fn all_small_shapes(thorough: bool) -> Vec<Shape> {
    let mut v = Vec::new();
    for circles in 0..=8u32 {
        for sliders in 0..=3u32 {
            for large_ticks in 0..=2u32 {
                if sliders == 0 && large_ticks > 0 {
                    continue;
                }
                v.push(Shape::Osu { circles, sliders, spinners: 0, large_ticks, extra_combo: 0 });
            }
        }
    }
    for max_combo in 0..=12u32 {
        v.push(Shape::Taiko { max_combo });
    }
    for fruits in 0..=6u32 {
        for droplets in 0..=3u32 {
            for tiny in 0..=6u32 {
                v.push(Shape::Catch { fruits, droplets, tiny });
            }
        }
    }
    let max_mania = if thorough { 8 } else { 7 };
    for objects in 0..=max_mania {
        for holds in 0..=3u32.min(objects) {
            v.push(Shape::Mania { objects, holds });
        }
    }
    v
}

fn enumerate(thorough: bool) -> EnumReport {
    let shapes = all_small_shapes(thorough);
    let results: std::sync::Mutex<(u64, u64, Vec<Value>, Option<(String, Value)>)> = std::sync::Mutex::new((0, 0, Vec::new(), None));
    let next = std::sync::atomic::AtomicUsize::new(0);
    std::thread::scope(|sc| {
        for _ in 0..16 {
            sc.spawn(|| loop {
                let i = next.fetch_add(1, std::sync::atomic::Ordering::SeqCst);
                let Some(shape) = shapes.get(i) else { break };
                let mut evals = 0u64;
                let mut nontrivial = 0u64;
                let mut failure = None;
                let mut sample = None;
                'outer: for origin in [Origin::Stable, Origin::Lazer, Origin::LazerClassic, Origin::LazerClassicHeadAcc, Origin::StableClassicHeadAcc] {
                    // origins that do not affect the mode are redundant
                    if matches!(shape, Shape::Taiko { .. } | Shape::Catch { .. }) && origin != Origin::Lazer {
                        continue;
                    }
                    if matches!(shape, Shape::Mania { .. }) && matches!(origin, Origin::LazerClassicHeadAcc | Origin::StableClassicHeadAcc) {
                        continue; // for mania any Classic mod means the classic judgement model (covered by LazerClassic)
                    }
                    let (n_obj, _) = sizes(shape, origin);
                    for misses in 0..=n_obj + 1 {
                        let mut cache = None;
                        // achievable set for these misses (template: everything else generated by the builder at 100%)
                        let probe = Provided { accuracy: Some(100.0), misses: Some(misses), ..Provided::default() }.apply(shape.attrs(), origin).generate_state();
                        let accs = achievable(shape, origin, sizes(shape, origin).1, probe.misses, &probe);
                        let targets = critical_targets(&accs);
                        for worst in [false, true] {
                            if matches!(shape, Shape::Catch { .. }) && worst {
                                continue; // priority is irrelevant for catch
                            }
                            for &target in &targets {
                                evals += 1;
                                // the origin is expressed in turn through a Difficulty, the Performance setters, and a Difficulty that went through InspectDifficulty (into_difficulty / From)
                                match check_target_via(shape, origin, Some(misses), worst, target, &mut cache, (evals % 4) as u8, None) {
                                    Ok(nt) => {
                                        if nt {
                                            nontrivial += 1;
                                            if sample.is_none() {
                                                sample = Some(json!({"shape": shape.describe(), "origin": format!("{origin:?}"), "misses": misses, "worst_case": worst, "target_accuracy": target}));
                                            }
                                        }
                                    }
                                    Err(m) => {
                                        failure = Some((
                                            m,
                                            json!({"shape": shape_json(shape), "origin": format!("{origin:?}"), "misses": misses, "worst_case": worst, "target": format!("{target:?}")}),
                                        ));
                                        break 'outer;
                                    }
                                }
                            }
                        }
                    }
                }
                let mut r = results.lock().unwrap();
                r.0 += evals;
                r.1 += nontrivial;
                if let Some(s) = sample {
                    if r.2.len() < 4 {
                        r.2.push(s);
                    }
                }
                if r.3.is_none() {
                    r.3 = failure;
                }
            });
        }
    });
    let (evaluations, distinct_nontrivial, samples, failure) = results.into_inner().unwrap();
    EnumReport {
        name: "small-shapes-exhaustive",
        rule: format!(
            "exhaustive enumeration of every small attribute shape (osu: circles 0..=8 x sliders 0..=3 x large ticks 0..=2; taiko: max_combo 0..=12; catch: fruits 0..=6 x droplets 0..=3 x tiny 0..=6; mania: objects 0..={} x hold notes 0..=3) x origin (stable / lazer / lazer+Classic / lazer+Classic with slider-head accuracy switched back on / stable carrying that Classic mod, where it matters; expressed in turn through a Difficulty, through the Performance::lazer/mods setters, and through a Difficulty that went through InspectDifficulty) x every miss count 0..=n_obj+1 x both priorities x the critical target grid (every achievable accuracy of the shape, midpoints of consecutive ones, each +-1e-7 percent, midpoints also +-2e-9 percent, 0, 100, 0.5% lattice). Oracle: brute force over every distribution of hit results over the same objects with the generated miss count (slider-part hits as the state reports): misses == min(given, n_obj), the state distributes exactly N judgements, and |acc(state) - target| <= min over all distributions + 1e-12. Each (shape, origin, misses, priority, target) tuple is distinct by construction; non-trivial: N - misses >= 2 and target strictly between the extreme achievable accuracies.",
            if thorough { 8 } else { 7 }
        ),
        evaluations,
        distinct_nontrivial,
        space_size: shapes.len() as u64,
        exhaustive: failure.is_none(),
        samples,
        failure,
    }
}

fn direct(v: &Value) -> Result<(), String> {
    let shape = shape_from_json(v.get("shape").ok_or("no shape")?).ok_or("bad shape")?;
    let origin = origin_from_name(v.get("origin").and_then(Value::as_str).unwrap_or("Lazer"));
    let misses = v.get("misses").and_then(Value::as_u64).map(|m| m as u32);
    let worst = v.get("worst_case").and_then(Value::as_bool).unwrap_or(false);
    let target = v.get("target").and_then(|t| t.as_str().and_then(|s| s.parse().ok()).or_else(|| t.as_f64())).ok_or("no target")?;
    let passed = v.get("passed").and_then(Value::as_u64).map(|m| m as u32);
    check_target(&shape, origin, misses, worst, target, &mut None, passed).map(|_| ())
}

/// Sampled larger shapes.
fn case_large(t: &mut Tape, info: &mut CaseInfo) -> Result<(), String> {
    let shape = match t.below(4) {
        0 => Shape::Osu { circles: t.range(0, 400) as u32, sliders: t.range(0, 200) as u32, spinners: t.range(0, 3) as u32, large_ticks: t.range(0, 300) as u32, extra_combo: 0 },
        1 => Shape::Taiko { max_combo: t.range(0, 600) as u32 },
        2 => Shape::Catch { fruits: t.range(0, 300) as u32, droplets: t.range(0, 100) as u32, tiny: t.range(0, 400) as u32 },
        _ => {
            let objects = t.range(0, 36) as u32;
            Shape::Mania { objects, holds: t.range(0, 4).min(i64::from(objects)) as u32 }
        }
    };
    let origin = *t.pick(&[Origin::Lazer, Origin::Stable, Origin::LazerClassic, Origin::LazerClassicHeadAcc, Origin::StableClassicHeadAcc]);
    let (n_obj, _) = sizes(&shape, origin);
    let misses = match t.weighted(&[3, 5, 1]) {
        0 => None,
        1 => Some(t.range(0, i64::from(n_obj.min(30))) as u32),
        _ => Some(t.range(0, i64::from(n_obj) + 1) as u32),
    };
    let worst = t.coin();
    let target = match t.weighted(&[6, 2, 1]) {
        0 => t.float(50.0, 100.0),
        1 => t.float(0.0, 100.0),
        _ => *t.pick(&[100.0, 0.0, 99.99, 66.6667, 33.3333]),
    };
    // a quarter of the osu! / taiko shapes is limited to a passed_objects prefix (attribute-based calculators keep
    // the full-map attributes, so the prefix only reaches the state generation through this setting)
    let passed = if matches!(shape, Shape::Osu { .. } | Shape::Taiko { .. }) && t.chance(1, 4) { Some(t.range(0, i64::from(n_obj) + 2) as u32) } else { None };
    info.label(format!("mode={:?}", shape.mode()));
    info.label(format!("origin={origin:?}"));
    info.label_if(passed.is_some(), "passed_objects");
    if info.want_sample {
        info.sample = Some(json!({"shape": shape.describe(), "origin": format!("{origin:?}"), "misses": misses, "worst_case": worst, "target_accuracy": target, "passed_objects": passed}));
        info.direct = Some(json!({"shape": shape_json(&shape), "origin": format!("{origin:?}"), "misses": misses, "worst_case": worst, "target": format!("{target:?}"), "passed": passed}));
    }
    let route = t.below(4) as u8;
    info.nontrivial = check_target_via(&shape, origin, misses, worst, target, &mut None, route, passed)?;
    info.comparisons += 1;
    info.set_key(&format!("{shape:?}{origin:?}{misses:?}{worst}{target}"));
    Ok(())
}

pub fn property() -> Property {
    Property {
        id: "C13",
        subchecks: vec![
            SubCheck {
                name: "small-shapes-exhaustive",
                rule: "(enumeration stage; this entry only provides the replay handler)",
                quick: 0,
                thorough: 0,
                tape_len: 1,
                f: |_, _| Ok(()),
                direct: Some(direct),
            },
            SubCheck {
                name: "sampled-large-shapes",
                rule: "sampled larger shapes (osu up to 600 objects, taiko up to 600, catch up to 400 fruits+droplets and 400 tiny droplets, mania up to 36 objects + 4 hold notes, 5 categories) x origin x miss count (up to beyond the object count) x priority x target accuracy in [0,100] x a passed_objects prefix for a quarter of the osu!/taiko shapes; same brute-force oracle. Non-trivial as in the enumeration stage.",
                quick: 20_000,
                thorough: 40_000,
                tape_len: 32,
                f: case_large,
                direct: Some(direct),
            },
        ],
        assumptions: &["accuracies are compared with an absolute slack of 1e-12 (two evaluations of the same rational expression)"],
        enumerate: Some(enumerate),
    }
}
