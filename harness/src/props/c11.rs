//! C11 — unsafe code never performs an invalid memory access. Three generated-history checks,
//! each meant to run under the dev profile (debug assertions) and under AddressSanitizer.

use rosu_pp::{
    __verif::StrainsVec,
    any::DifficultyAttributes,
    catch::CatchGradualDifficulty,
    mania::ManiaGradualDifficulty,
    model::{hit_object::HitObjectKind, mode::GameMode},
    osu::OsuGradualDifficulty,
    Beatmap, Difficulty, GradualDifficulty, GradualPerformance,
};
use serde_json::json;

use super::{
    common::{in_open_taiko_class, pick_target},
    Property,
};
use crate::{
    canon::{same, Canon},
    engine::{CaseInfo, SubCheck},
    gen::{
        diff::{gen_diff, mode_name, DiffProfile},
        map::{gen_map, map_labels, MapProfile, ALL_MODES},
        score::gen_any_state,
    },
    tape::Tape,
};

// ------------------------------------------------------------------ (a) StrainsVec vs model

#[derive(Clone, Debug)]
enum SOp {
    Push(f64),
    Len,
    Sum,
    Iter,
    CloneIntoVec,
    Retain,
    RetainSort,
    SortedIterMutScale(f64),
    RetainThenSortDesc,
    RetainThenTransmute,
}

fn model_push(m: &mut Vec<f64>, v: f64) {
    // the anchored mechanism: only strictly positive, sign-positive values are stored as values
    m.push(if v.to_bits() > 0 && v.is_sign_positive() { v } else { 0.0 });
}

fn same_f(a: f64, b: f64) -> bool {
    a == b || (a.is_nan() && b.is_nan())
}

fn same_vec(what: &str, a: &[f64], b: &[f64]) -> Result<(), String> {
    if a.len() != b.len() {
        return Err(format!("{what}: {} items, model has {}", a.len(), b.len()));
    }
    for (i, (x, y)) in a.iter().zip(b).enumerate() {
        if !same_f(*x, *y) {
            return Err(format!("{what}[{i}]: {x} vs model {y}"));
        }
    }
    Ok(())
}

fn gen_value(t: &mut Tape, non_negative_only: bool) -> f64 {
    if non_negative_only {
        return match t.weighted(&[6, 3, 1, 1]) {
            0 => t.float(0.001, 1000.0),
            1 => 0.0,
            2 => f64::from_bits(t.range(1, 1000) as u64),
            _ => *t.pick(&[1e300, f64::MIN_POSITIVE, 1.0, 5e-324]),
        };
    }
    match t.weighted(&[8, 4, 1, 1, 1, 1, 1]) {
        0 => t.float(0.001, 1000.0),
        1 => 0.0,
        2 => -0.0,
        3 => -t.float(0.001, 1000.0),
        4 => f64::from_bits(t.range(1, 1000) as u64), // subnormal
        5 => *t.pick(&[f64::NAN, -f64::NAN, f64::from_bits(0x7ff8_0000_0000_0001)]),
        _ => *t.pick(&[f64::INFINITY, f64::NEG_INFINITY, f64::MAX, f64::MIN_POSITIVE, -f64::MIN_POSITIVE]),
    }
}

fn case_strainsvec(t: &mut Tape, info: &mut CaseInfo) -> Result<(), String> {
    // the raw implementation is compared on the non-negative sub-domain its documentation promises
    let raw_build = cfg!(feature = "raw_strains");
    let n_ops = t.range(1, 200) as usize;
    let mut ops = Vec::with_capacity(n_ops);
    for _ in 0..n_ops {
        ops.push(match t.weighted(&[30, 2, 2, 3, 2, 2, 2, 2, 1, 1]) {
            0 => {
                // runs of zeros are the interesting shape
                // the raw implementation is a plain Vec<f64> whose `a > 0.0` filter treats NaN differently from
                // the compact one; NaN is outside "non-negative floats", so it is only generated for the compact build
                let v = gen_value(t, false);
                SOp::Push(if raw_build && v.is_nan() { 0.0 } else { v })
            }
            1 => SOp::Len,
            2 => SOp::Sum,
            3 => SOp::Iter,
            4 => SOp::CloneIntoVec,
            5 => SOp::Retain,
            6 => SOp::RetainSort,
            7 => SOp::SortedIterMutScale(t.float(0.1, 3.0)),
            8 => SOp::RetainThenSortDesc,
            _ => SOp::RetainThenTransmute,
        });
    }
    if info.want_sample {
        info.sample = Some(json!({"ops": format!("{:?}", ops), "n_ops": ops.len(), "raw_strains_build": raw_build}));
    }
    let mut v = StrainsVec::with_capacity(t.range(0, 8) as usize);
    let mut m: Vec<f64> = Vec::new();
    let mut zero_adjacent = false;
    let mut structural = false;
    let mut retained = false; // after a retain the container has no zeros any more
    for (i, op) in ops.iter().enumerate() {
        let at = format!("op#{i} {op:?}");
        match op {
            SOp::Push(x) => {
                let was_zero = m.last().is_some_and(|l| *l == 0.0);
                v.push(*x);
                model_push(&mut m, *x);
                let is_zero = *m.last().unwrap() == 0.0;
                if m.len() >= 2 && was_zero != is_zero {
                    zero_adjacent = true;
                }
                if is_zero {
                    retained = false;
                }
            }
            SOp::Len => {
                if v.len() != m.len() {
                    return Err(format!("{at}: len {} vs model {}", v.len(), m.len()));
                }
            }
            SOp::Sum => {
                let s: f64 = m.iter().copied().filter(|x| *x != 0.0 || x.is_nan()).sum();
                if !same_f(v.sum(), s) && !(v.sum() == 0.0 && s == 0.0) {
                    return Err(format!("{at}: sum {} vs model {s}", v.sum()));
                }
            }
            SOp::Iter => {
                let mut it = v.iter();
                let mut out = Vec::new();
                let mut remaining = m.len();
                loop {
                    if it.len() != remaining {
                        return Err(format!("{at}: ExactSizeIterator::len {} vs model {remaining}", it.len()));
                    }
                    match it.next() {
                        Some(x) => {
                            out.push(x);
                            remaining = remaining.saturating_sub(1);
                        }
                        None => break,
                    }
                }
                same_vec(&at, &out, &m)?;
                structural = true;
            }
            SOp::CloneIntoVec => {
                same_vec(&at, &v.clone().into_vec(), &m)?;
                structural = true;
            }
            SOp::Retain => {
                v.retain_non_zero();
                m.retain(|x| *x != 0.0);
                retained = true;
                same_vec(&at, &v.clone().into_vec(), &m)?;
                structural = true;
            }
            SOp::RetainSort => {
                v.retain_non_zero_and_sort();
                m.retain(|x| *x != 0.0);
                m.sort_by(|a, b| b.total_cmp(a));
                retained = true;
                same_vec(&at, &v.clone().into_vec(), &m)?;
                structural = true;
            }
            SOp::SortedIterMutScale(f) => {
                m.retain(|x| *x != 0.0);
                m.sort_by(|a, b| b.total_cmp(a));
                let it = v.sorted_non_zero_iter_mut();
                if it.len() != m.len() {
                    return Err(format!("{at}: sorted_non_zero_iter_mut yields {} items, model {}", it.len(), m.len()));
                }
                for (x, y) in it.zip(m.iter_mut()) {
                    if !same_f(*x, *y) {
                        return Err(format!("{at}: item {x} vs model {y}"));
                    }
                    // in-place scaling by a positive factor; the container's contract is that values stay
                    // positive, so a product that would underflow to zero (subnormals) is not written
                    if *y * *f > 0.0 {
                        *x *= *f;
                        *y *= *f;
                    }
                }
                retained = true;
                same_vec(&at, &v.clone().into_vec(), &m)?;
                structural = true;
            }
            SOp::RetainThenSortDesc => {
                // documented precondition of sort_desc: no zeros
                v.retain_non_zero();
                v.sort_desc();
                m.retain(|x| *x != 0.0);
                m.sort_by(|a, b| b.total_cmp(a));
                retained = true;
                same_vec(&at, &v.clone().into_vec(), &m)?;
                structural = true;
            }
            SOp::RetainThenTransmute => {
                let mut c = v.clone();
                c.retain_non_zero();
                let mut mm = m.clone();
                mm.retain(|x| *x != 0.0);
                // SAFETY: zeros were just removed (the documented precondition)
                let out = unsafe { c.transmute_into_vec() };
                same_vec(&at, &out, &mm)?;
                structural = true;
            }
        }
        info.comparisons += 1;
        let _ = retained;
    }
    same_vec("final into_vec", &v.into_vec(), &m)?;
    info.label(if raw_build { "raw-impl" } else { "compact-impl" });
    info.nontrivial = zero_adjacent && structural;
    info.set_key(&format!("{ops:?}"));
    Ok(())
}

/// Entry point for the coverage-guided fuzz target.
pub fn strainsvec_from_tape(tape: &[u32]) -> Result<(), String> {
    let mut t = Tape::new(tape.to_vec());
    case_strainsvec(&mut t, &mut CaseInfo::default())
}

// ------------------------------------------------------------------ (b) gradual calculators under moves / drops

enum Typed {
    Any(GradualDifficulty),
    Osu(OsuGradualDifficulty),
    Catch(CatchGradualDifficulty),
    Mania(ManiaGradualDifficulty),
}

impl Typed {
    fn next(&mut self) -> Option<DifficultyAttributes> {
        match self {
            Typed::Any(g) => g.next(),
            Typed::Osu(g) => g.next().map(DifficultyAttributes::Osu),
            Typed::Catch(g) => g.next().map(DifficultyAttributes::Catch),
            Typed::Mania(g) => g.next().map(DifficultyAttributes::Mania),
        }
    }
}

fn make(text: &str, d: &Difficulty, target: GameMode, typed: bool) -> Result<Typed, String> {
    // the source map is dropped as soon as the calculator exists
    let map = Beatmap::from_bytes(text.as_bytes()).map_err(|e| e.to_string())?;
    let r = if typed {
        match target {
            GameMode::Osu => OsuGradualDifficulty::new(d.clone(), &map).map(Typed::Osu),
            GameMode::Catch => CatchGradualDifficulty::new(d.clone(), &map).map(Typed::Catch),
            GameMode::Mania => ManiaGradualDifficulty::new(d.clone(), &map).map(Typed::Mania),
            GameMode::Taiko => GradualDifficulty::new_with_mode(d.clone(), &map, target).map(Typed::Any),
        }
    } else {
        GradualDifficulty::new_with_mode(d.clone(), &map, target).map(Typed::Any)
    };
    drop(map);
    r.map_err(|e| e.to_string())
}

/// Move a calculator through a thread (only the `Send` ones; taiko needs the `sync` feature).
fn through_thread(g: Typed) -> Typed {
    match g {
        Typed::Osu(g) => Typed::Osu(std::thread::spawn(move || g).join().unwrap()),
        Typed::Catch(g) => Typed::Catch(std::thread::spawn(move || g).join().unwrap()),
        Typed::Mania(g) => Typed::Mania(std::thread::spawn(move || g).join().unwrap()),
        other => other,
    }
}

fn case_moves(t: &mut Tape, info: &mut CaseInfo) -> Result<(), String> {
    let n_calcs = t.range(1, 3) as usize;
    let mut calcs: Vec<Box<Typed>> = Vec::new();
    let mut twins: Vec<Typed> = Vec::new();
    let mut descr = Vec::new();
    for _ in 0..n_calcs {
        let spec = gen_map(t, &MapProfile::small(ALL_MODES, 25));
        let target = pick_target(t, spec.mode);
        let mut dspec = gen_diff(t, &DiffProfile::realistic(), target);
        // a third of the calculators gets a Difficulty that already carries passed_objects
        if t.chance(1, 3) {
            dspec.passed = Some(t.range(0, spec.objects.len() as i64 + 1) as u32);
            info.label("preset-passed_objects");
        }
        let text = spec.render();
        let d = dspec.build(target);
        map_labels(&spec, info);
        let map = spec.decode();
        if target == GameMode::Taiko {
            if let Ok(c) = map.convert_ref(GameMode::Taiko, &dspec.mods.build(target)) {
                if in_open_taiko_class(&c.hit_objects) {
                    info.excluded_known += 1;
                    continue;
                }
            }
        }
        let typed = t.coin();
        calcs.push(Box::new(make(&text, &d, target, typed)?));
        twins.push(make(&text, &d, target, typed)?);
        descr.push(json!({"map": spec.sample(), "target": mode_name(target), "typed": typed}));
    }
    if calcs.is_empty() {
        return Ok(());
    }
    let n_ops = t.range(2, 30) as usize;
    let mut ops_log = Vec::new();
    let mut moved_after_step = false;
    let mut stepped = false;
    // a Vec that is forced to reallocate while it owns calculators
    let mut shelf: Vec<Typed> = Vec::new();
    for i in 0..n_ops {
        if calcs.is_empty() {
            break;
        }
        let k = t.below_usize(calcs.len());
        let op = t.below(7);
        ops_log.push(format!("{op}@{k}"));
        match op {
            0 | 1 | 2 => {
                let got = calcs[k].next();
                let exp = twins[k].next();
                match (&got, &exp) {
                    (None, None) => {}
                    (Some(a), Some(b)) => same(&format!("op#{i}: moved calculator {k} vs never-moved twin"), a, b)?,
                    _ => return Err(format!("op#{i}: moved calculator {k} returned {} but its twin {}", got.is_some(), exp.is_some())),
                }
                info.comparisons += 1;
                stepped = true;
            }
            3 => {
                // unbox, push into a reallocating Vec, take back, re-box
                let g = *calcs.remove(k);
                shelf.push(g);
                shelf.reserve(shelf.capacity() + 17);
                shelf.shrink_to_fit();
                let g = shelf.pop().unwrap();
                calcs.insert(k, Box::new(g));
                moved_after_step |= stepped;
            }
            4 => {
                if calcs.len() >= 2 {
                    let j = (k + 1) % calcs.len();
                    let (a, b) = if k < j {
                        let (l, r) = calcs.split_at_mut(j);
                        (&mut *l[k], &mut *r[0])
                    } else {
                        let (l, r) = calcs.split_at_mut(k);
                        (&mut *r[0], &mut *l[j])
                    };
                    std::mem::swap(a, b);
                    twins.swap(k, j);
                    moved_after_step |= stepped;
                }
            }
            5 => {
                let g = *calcs.remove(k);
                calcs.insert(k, Box::new(through_thread(g)));
                moved_after_step |= stepped;
            }
            _ => {
                // drop mid-iteration
                if calcs.len() > 1 {
                    drop(calcs.remove(k));
                    drop(twins.remove(k));
                }
            }
        }
    }
    if info.want_sample {
        info.sample = Some(json!({"calculators": descr, "ops(0-2 step,3 vec-realloc,4 swap,5 thread,6 drop)": ops_log}));
    }
    info.nontrivial = moved_after_step;
    info.set_key(&format!("{descr:?}{ops_log:?}"));
    // gradual performance moved into a box and stepped
    let spec = gen_map(t, &MapProfile::small(ALL_MODES, 12));
    if spec.mode != 1 {
        let map = spec.decode();
        let mut gp = Box::new(GradualPerformance::new(Difficulty::new(), &map));
        drop(map);
        let st = gen_any_state(t, 12);
        let a = gp.next(st.clone());
        let mut moved = *gp;
        let b = moved.next(st);
        let _ = (a.map(|x| x.dump()), b.map(|x| x.dump()));
    }
    Ok(())
}

// ------------------------------------------------------------------ (c) decoder scratch buffer

fn slider_line(t: &mut Tape, time: i64) -> String {
    let curve = *t.pick(&["L", "B", "P", "C", "B", "L"]);
    let n_seg = match t.weighted(&[6, 3, 1]) {
        0 => t.range(1, 5) as usize,
        1 => t.range(6, 30) as usize,
        _ => t.range(31, 120) as usize,
    };
    let mut s = format!("{},{},{time},2,0,{curve}", t.range(0, 512), t.range(0, 384));
    for _ in 0..n_seg {
        match t.weighted(&[12, 2, 1, 1]) {
            0 => s.push_str(&format!("|{}:{}", t.range(-200, 700), t.range(-200, 600))),
            // a new curve-type letter starts a new segment
            1 => s.push_str(&format!("|{}", t.pick(&["L", "B", "P", "C"]))),
            // empty segment: the closure returns early with an error
            2 => s.push('|'),
            _ => s.push_str(&format!("|{}:", t.range(0, 512))),
        }
    }
    s.push_str(&format!(",{},{}", t.range(1, 4), t.range(10, 500)));
    s
}

fn filler_line(t: &mut Tape, time: i64) -> String {
    match t.below(4) {
        0 => format!("{},{},{time},1,0,0:0:0:0:", t.range(0, 512), t.range(0, 384)),
        1 => format!("{},{},{time},12,0,{},0:0:0:0:", t.range(0, 512), t.range(0, 384), time + 500),
        2 => "x".repeat(t.range(0, 300) as usize),
        _ => format!("{},{},{time},2,0,B|{}", t.range(0, 512), t.range(0, 384), "1:1|".repeat(t.range(1, 60) as usize)),
    }
}

fn points_of(map: &Beatmap, time: f64) -> Option<Vec<(u32, u32, String)>> {
    map.hit_objects.iter().find(|h| h.start_time == time).map(|h| match &h.kind {
        HitObjectKind::Slider(s) => s.control_points.iter().map(|p| (p.pos.x.to_bits(), p.pos.y.to_bits(), format!("{:?}", p.path_type))).collect(),
        _ => Vec::new(),
    })
}

fn case_decoder(t: &mut Tape, info: &mut CaseInfo) -> Result<(), String> {
    const HDR: &str = "osu file format v14\n\n[TimingPoints]\n0,500,4,2,0,60,1,0\n\n[HitObjects]\n";
    let n_lines = t.range(2, 24) as usize;
    let mut lines = Vec::new();
    let mut slider_times = Vec::new();
    let mut seg_counts = std::collections::HashSet::new();
    for i in 0..n_lines {
        let time = (i as i64) * 1000 + 7;
        if t.chance(1, 2) {
            let l = slider_line(t, time);
            seg_counts.insert(l.matches('|').count());
            slider_times.push((time as f64, l.clone()));
            lines.push(l);
        } else {
            lines.push(filler_line(t, time));
        }
    }
    let full = format!("{HDR}{}\n", lines.join("\n"));
    if info.want_sample {
        info.sample = Some(json!({"lines": lines.iter().take(6).map(|l| l.chars().take(160).collect::<String>()).collect::<Vec<_>>()}));
        info.direct = Some(json!({"osu": full}));
    }
    let whole = Beatmap::from_bytes(full.as_bytes()).map_err(|e| e.to_string())?;
    // Decoder behaviour that is *not* a memory-safety matter: a slider line that fails during path
    // conversion leaves its already converted points in the (safe) `curve_points` buffer and they are
    // prepended to the next slider. The oracle therefore demands exact equality only while every
    // preceding slider line decoded on its own, and otherwise that the line's own points are the
    // suffix of what it gets in context (a stale `*const str` would corrupt exactly those own points).
    let mut all_previous_ok = true;
    for (time, line) in &slider_times {
        let alone = Beatmap::from_bytes(format!("{HDR}{line}\n").as_bytes()).map_err(|e| e.to_string())?;
        let a = points_of(&alone, *time);
        let b = points_of(&whole, *time);
        info.comparisons += 1;
        let ok = match (&a, &b) {
            (None, None) => true,
            (Some(a), Some(b)) if all_previous_ok => a == b,
            (Some(a), Some(b)) => b.len() >= a.len() && b[b.len() - a.len()..] == a[..],
            _ => false,
        };
        if !ok {
            return Err(format!(
                "slider at {time} decodes to different control points alone ({:?}) than after a prefix of other lines ({:?}, all previous slider lines decoded: {all_previous_ok}); line: {}",
                a.as_ref().map(Vec::len),
                b.as_ref().map(Vec::len),
                line.chars().take(200).collect::<String>()
            ));
        }
        if a.is_none() {
            all_previous_ok = false;
            info.label("has-failing-slider-line");
        }
    }
    info.nontrivial = slider_times.len() >= 2 && seg_counts.len() >= 2;
    info.set_key(&full);
    Ok(())
}

pub fn property() -> Property {
    Property {
        id: "C11",
        subchecks: vec![
            SubCheck {
                name: "public-strain-lists",
                rule: "the strain lists that leave the library through strains() are plain lists: the list part of the C16 oracle (every peak finite and >= 0, equal lengths per mode; not the re-aggregation, which is C16's) on G-MAP maps incl. long breaks, empty and one-object maps and passed_objects(0|1) - an encoded zero run or a reinterpreted entry that leaks out of the compact list shows up as a negative subnormal or a short list. Non-trivial as in C16.",
                quick: 6_000,
                thorough: 60_000,
                tape_len: 1500,
                f: super::c16::case_lists_only,
                direct: None,
            },
            SubCheck {
                name: "strainsvec-model",
                rule: "through the verif hook: 1-200 ops on StrainsVec: push(v) with v in {positive, +0.0, -0.0, negative, subnormal, +-NaN incl. payloads, +-inf, MAX, MIN_POSITIVE}, len, sum, iter().collect() with ExactSizeIterator::len checked at every step, clone().into_vec(), retain_non_zero, retain_non_zero_and_sort, sorted_non_zero_iter_mut with in-place scaling by a positive factor, sort_desc and transmute_into_vec only directly after a retain (their documented precondition). Reference model: Vec<f64> where push stores v iff v.to_bits()>0 && v.is_sign_positive(), else 0.0; every observation must be same-value-equal to the model's. Run on the default (compact) and on the raw_strains build, in the dev profile (has_zero debug assertions, overflow checks) and under AddressSanitizer. Non-trivial: a zero-class push adjacent to a positive push and >=1 retain/sort/transmute/iterate.",
                quick: 30_000,
                thorough: 600_000,
                tape_len: 640,
                f: case_strainsvec,
                direct: None,
            },
            SubCheck {
                name: "gradual-moves-and-drops",
                rule: "1-3 gradual difficulty calculators (all modes + converts; generic enum or the mode-specific type), each created from a map that is dropped immediately; history of 2-30 ops: step, unbox -> push into a Vec forced to reallocate -> pop -> re-box, mem::swap of two instances, move into a thread and back (osu/catch/mania types, which are Send), drop mid-iteration; a GradualPerformance moved out of a Box between steps. Oracle: every value equals that of a never-moved twin (all fields); no debug assertion / sanitizer report. Non-trivial: >=1 move after >=1 step.",
                quick: 4000,
                thorough: 80_000,
                tape_len: 3200,
                f: case_moves,
                direct: None,
            },
            SubCheck {
                name: "decoder-scratch-buffer",
                rule: "2-24 hit-object lines: slider lines with 1-120 '|' segments (coordinates, extra curve-type letters, empty segments and half points that make the per-line closure return early) interleaved with circles, spinners, junk lines of 0-300 chars and long degenerate slider lines. Metamorphic oracle: the control points (bit patterns and path types) decoded for each slider line are identical whether the line is decoded alone or after the prefix of other lines (a stale *const str would read the reused line buffer, which a sanitizer cannot flag); once a preceding slider line failed to decode, the line's own points must still be the exact suffix of what it gets in context (the safe curve_points buffer legitimately carries over leftovers of a failed line, see DESIGN.md). Non-trivial: >=2 slider lines with different segment counts.",
                quick: 20_000,
                thorough: 400_000,
                tape_len: 1500,
                f: case_decoder,
                direct: None,
            },
        ],
        assumptions: &[
            "AddressSanitizer sees heap misuse that happens in an execution; the move/drop histories dereference after every move",
            "Miri is deliberately not the oracle: its aliasing models flag the self-referential Box moves, which is outside what the property states",
        ],
        enumerate: None,
    }
}
