//! C07 — mode dispatch and map conversion are mutually consistent.

use std::borrow::Cow;

use rosu_pp::{
    any::{DifficultyAttributes, PerformanceAttributes},
    model::mode::GameMode,
    GradualDifficulty, GradualPerformance, Performance,
};
use serde_json::json;

use super::{
    common::{calc_for_mode, mode_idx, perf_for_mode, strains_for_mode, MODES},
    Property,
};
use crate::{
    canon::same,
    engine::{CaseInfo, SubCheck},
    gen::{
        diff::{gen_diff, mode_name, mode_of, DiffProfile},
        map::{gen_map, map_labels, MapProfile, ALL_MODES},
        score::{gen_any_state, gen_score_spec},
    },
    tape::Tape,
};

fn case(t: &mut Tape, info: &mut CaseInfo) -> Result<(), String> {
    let spec = gen_map(t, &MapProfile::small(ALL_MODES, 40));
    let target = mode_of(t.below(4) as u8);
    let dspec = gen_diff(t, &DiffProfile::realistic().passed(spec.objects.len() as u32), target);
    let score = gen_score_spec(t, spec.objects.len() as u32);
    let already_converted = t.chance(1, 8);
    let mut map = spec.decode();
    let d = dspec.build(target);
    let mods = dspec.mods.build(target);
    map_labels(&spec, info);
    info.label(format!("target={target:?}"));
    if already_converted && map.mode == GameMode::Osu {
        let first = *t.pick(&[GameMode::Taiko, GameMode::Catch, GameMode::Mania]);
        map = map.convert(first, &mods).map_err(|e| e.to_string())?;
        info.label("source-already-converted");
    } else if map.mode == GameMode::Osu && t.chance(1, 12) {
        // the flag is a public field: an osu! map marked as a convert by hand must be refused by every entry point alike
        map.is_convert = true;
        info.label("convert-flag-set-by-hand");
    }
    if info.want_sample {
        info.sample = Some(json!({"map": spec.sample(), "source_mode": mode_name(map.mode), "is_convert": map.is_convert, "target": mode_name(target), "difficulty": dspec.describe(), "score": score.describe()}));
    }
    let src_mode = map.mode;
    let src_is_convert = map.is_convert;

    // (a) three entry points agree
    let by_value = map.clone().convert(target, &mods);
    let by_ref = map.convert_ref(target, &mods);
    let mut in_place = map.clone();
    let by_mut = in_place.convert_mut(target, &mods);
    let expect_ok = target == src_mode || (src_mode == GameMode::Osu && !src_is_convert);
    match (&by_value, &by_ref, &by_mut) {
        (Ok(a), Ok(b), Ok(())) => {
            if a != b.as_ref() {
                return Err("convert (by value) != convert_ref".into());
            }
            if *a != in_place {
                return Err("convert (by value) != convert_mut".into());
            }
            if !expect_ok {
                return Err(format!("conversion {src_mode:?}(is_convert={src_is_convert}) -> {target:?} succeeded but must fail"));
            }
            if a.mode != target {
                return Err(format!("converted map has mode {:?}, expected {target:?}", a.mode));
            }
            if target == src_mode {
                // (b) identity
                if *a != map {
                    return Err("conversion to the own mode is not the identity".into());
                }
                if !matches!(by_ref, Ok(Cow::Borrowed(_))) {
                    return Err("convert_ref to the own mode did not borrow".into());
                }
            } else if !a.is_convert {
                return Err("real conversion did not set is_convert".into());
            }
        }
        (Err(a), Err(b), Err(c)) => {
            let (a, b, c) = (format!("{a:?}"), format!("{b:?}"), format!("{c:?}"));
            if a != b || a != c {
                return Err(format!("conversion errors differ: {a} / {b} / {c}"));
            }
            if expect_ok {
                return Err(format!("conversion {src_mode:?} -> {target:?} failed ({a}) but must succeed"));
            }
            if in_place != map {
                return Err("failed convert_mut modified the map".into());
            }
            // (which of the two ConvertError variants is reported is not fixed by the property, only that the
            // three entry points report the same one)
        }
        _ => {
            return Err(format!(
                "entry points disagree on success: convert={:?} convert_ref={:?} convert_mut={:?}",
                by_value.as_ref().map(|_| ()).map_err(|e| format!("{e:?}")),
                by_ref.as_ref().map(|_| ()).map_err(|e| format!("{e:?}")),
                by_mut.as_ref().map_err(|e| format!("{e:?}"))
            ))
        }
    }
    info.comparisons += 3;

    // error side of the calculators: every mode entry point must refuse exactly when conversion refuses
    let Ok(explicit) = by_value else {
        if calc_for_mode(&d, &map, target).is_ok() {
            return Err("calculate_for_mode succeeded although conversion is impossible".into());
        }
        if strains_for_mode(&d, &map, target).is_ok() {
            return Err("strains_for_mode succeeded although conversion is impossible".into());
        }
        if GradualDifficulty::new_with_mode(d.clone(), &map, target).is_ok() {
            return Err("GradualDifficulty::new_with_mode succeeded although conversion is impossible".into());
        }
        if GradualPerformance::new_with_mode(d.clone(), &map, target).is_ok() {
            return Err("GradualPerformance::new_with_mode succeeded although conversion is impossible".into());
        }
        let p = Performance::new(&map).mods(mods.clone());
        let before = p.clone();
        match p.try_mode(target) {
            Ok(_) => return Err("Performance::try_mode succeeded although conversion is impossible".into()),
            Err(back) => {
                if back != before {
                    return Err("Performance::try_mode Err(self) is not the unchanged calculator".into());
                }
            }
        }
        if before.clone().mode_or_ignore(target) != before {
            return Err("Performance::mode_or_ignore changed an inconvertible calculator".into());
        }
        // the same for a calculator that owns its map
        let owned = Performance::new(map.clone()).mods(mods.clone());
        let owned_before = owned.clone();
        match owned.try_mode(target) {
            Ok(_) => return Err("Performance::try_mode (owned map) succeeded although conversion is impossible".into()),
            Err(back) => {
                if back != owned_before {
                    return Err("Performance::try_mode (owned map) Err(self) is not the unchanged calculator".into());
                }
            }
        }
        if owned_before.clone().mode_or_ignore(target) != owned_before {
            return Err("Performance::mode_or_ignore changed an inconvertible calculator (owned map)".into());
        }
        info.label("error-path");
        info.nontrivial = src_mode != GameMode::Osu || src_is_convert;
        info.set_key(&format!("{spec:?}{dspec:?}{target:?}{already_converted}"));
        return Ok(());
    };

    // (d) direct calculation for the target mode == calculation on the explicitly converted map
    let direct = calc_for_mode(&d, &map, target)?;
    let via_explicit: DifficultyAttributes = d.calculate(&explicit);
    same("calculate_for_mode::<M>(&src) vs calculate(&explicit)", &direct, &via_explicit)?;
    let s_direct = strains_for_mode(&d, &map, target)?;
    same("strains_for_mode::<M>(&src) vs strains(&explicit)", &s_direct, &d.strains(&explicit))?;
    info.comparisons += 2;

    // gradual calculators; inputs inside an open taiko gradual finding are not walked here
    let gradual_ok = !(target == GameMode::Taiko && super::common::in_open_taiko_class(&explicit.hit_objects));
    if !gradual_ok {
        info.excluded_known += 1;
        info.label("gradual-skipped:open-taiko-class");
    }
    let mut dg_spec = dspec.clone();
    dg_spec.passed = None;
    let dg = dg_spec.build(target);
    if gradual_ok {
    let g1: Vec<DifficultyAttributes> = GradualDifficulty::new_with_mode(dg.clone(), &map, target).map_err(|e| e.to_string())?.collect();
    let g2: Vec<DifficultyAttributes> = GradualDifficulty::new(dg.clone(), &explicit).collect();
    same("GradualDifficulty::new_with_mode(&src) vs new(&explicit)", &g1, &g2)?;
    let g3: Vec<DifficultyAttributes> = explicit.gradual_difficulty(dg.clone()).collect();
    same("Beatmap::gradual_difficulty vs GradualDifficulty::new", &g3, &g2)?;
    let g4: Vec<DifficultyAttributes> = dg.clone().gradual_difficulty(&explicit).collect();
    same("Difficulty::gradual_difficulty vs GradualDifficulty::new", &g4, &g2)?;
    let g5 = super::common::mode_gradual_difficulty(&dg, &map, target)?;
    same("Difficulty::gradual_difficulty_for_mode::<M>(&src) vs GradualDifficulty::new(&explicit)", &g5, &g2)?;
    info.comparisons += 4;

    // gradual performance with a fixed stream of states
    let n_states = t.range(1, 5) as usize;
    let states: Vec<_> = (0..n_states).map(|_| gen_any_state(t, spec.objects.len() as u32)).collect();
    let mut p1 = GradualPerformance::new_with_mode(dg.clone(), &map, target).map_err(|e| e.to_string())?;
    let mut p2 = GradualPerformance::new(dg.clone(), &explicit);
    for (i, s) in states.iter().enumerate() {
        let k = if i % 2 == 0 { 0 } else { 2 };
        let a: Option<PerformanceAttributes> = p1.nth(s.clone(), k);
        let b: Option<PerformanceAttributes> = p2.nth(s.clone(), k);
        same(&format!("GradualPerformance step {i}"), &a, &b)?;
        info.comparisons += 1;
    }
    // the remaining constructors, walked with next / last: generic on the explicit map (three spellings) and
    // the mode-specific calculator on the source map
    let walk = |mut g: GradualPerformance| -> (usize, Vec<Option<PerformanceAttributes>>, usize) {
        let before = g.len();
        let out = states.iter().enumerate().map(|(i, s)| if i + 1 == states.len() { g.last(s.clone()) } else { g.next(s.clone()) }).collect();
        (before, out, g.len())
    };
    let w0 = walk(GradualPerformance::new(dg.clone(), &explicit));
    let w1 = walk(explicit.gradual_performance(dg.clone()));
    let w2 = walk(dg.clone().gradual_performance(&explicit));
    let w3 = super::common::mode_gradual_performance_walk(&dg, &map, target, &states)?;
    for (name, w) in [("Beatmap::gradual_performance", &w1), ("Difficulty::gradual_performance", &w2), ("Difficulty::gradual_performance_for_mode::<M>(&src) with the mode-specific next/last", &w3)] {
        if (w.0, w.2) != (w0.0, w0.2) {
            return Err(format!("{name}: len() before/after the walk {:?} vs {:?} for GradualPerformance::new(&explicit)", (w.0, w.2), (w0.0, w0.2)));
        }
        same(&format!("{name} vs GradualPerformance::new(&explicit), next.. then last"), &w.1, &w0.1)?;
        info.comparisons += 1;
    }
    }

    // Performance::try_mode / mode_or_ignore
    let via_try = match Performance::new(&map).mods(mods.clone()).try_mode(target) {
        Ok(p) => p,
        Err(_) => return Err("Performance::try_mode refused a possible conversion".into()),
    };
    let r_try = score.apply(via_try.difficulty(d.clone())).calculate();
    // the same through a calculator that owns its map (eager in-place conversion)
    let r_try_owned = match Performance::new(map.clone()).mods(mods.clone()).try_mode(target) {
        Ok(p) => score.apply(p.difficulty(d.clone())).calculate(),
        Err(_) => return Err("Performance::try_mode refused a possible conversion (owned map)".into()),
    };
    let r_ignore_owned = score.apply(Performance::new(map.clone()).mods(mods.clone()).mode_or_ignore(target).difficulty(d.clone())).calculate();
    let r_ignore = score.apply(Performance::new(&map).mods(mods.clone()).mode_or_ignore(target).difficulty(d.clone())).calculate();
    let r_explicit = score.apply(Performance::new(&explicit).difficulty(d.clone())).calculate();
    let r_mode = score.apply(perf_for_mode(&map, target).difficulty(d.clone())).calculate();
    same("try_mode vs explicit", &r_try, &r_explicit)?;
    same("try_mode on an owned map vs explicit", &r_try_owned, &r_explicit)?;
    same("mode_or_ignore on an owned map vs explicit", &r_ignore_owned, &r_explicit)?;
    same("mode_or_ignore vs explicit", &r_ignore, &r_explicit)?;
    same("<Mode>Performance::new(&src) vs explicit", &r_mode, &r_explicit)?;
    info.comparisons += 3;

    // the conversion happens at the mode switch, with the mods known then: mods given *afterwards* (a different
    // key mod, say) apply to the already converted map, for borrowed and owned maps alike
    if src_mode == GameMode::Osu && !src_is_convert {
        let later = gen_diff(t, &DiffProfile::realistic(), target);
        let later_mods = later.mods.build(target);
        let expect = score.apply(Performance::new(&explicit).mods(later_mods.clone())).calculate();
        for (name, p) in [
            ("try_mode on a borrowed map", Performance::new(&map).mods(mods.clone()).try_mode(target).ok()),
            ("try_mode on an owned map", Performance::new(map.clone()).mods(mods.clone()).try_mode(target).ok()),
            ("mode_or_ignore on a borrowed map", Some(Performance::new(&map).mods(mods.clone()).mode_or_ignore(target))),
            ("mode_or_ignore on an owned map", Some(Performance::new(map.clone()).mods(mods.clone()).mode_or_ignore(target))),
        ] {
            let p = p.ok_or_else(|| format!("{name} refused a possible conversion"))?;
            same(&format!("mods(A).{name}.mods(B) vs Performance::new(&convert(A)).mods(B)"), &score.apply(p.mods(later_mods.clone())).calculate(), &expect)?;
            info.comparisons += 1;
        }
    }

    // score setters given *before* the mode switch must be carried over (the conversions copy the
    // builder field by field); setters that mean different things in the two modes are left out
    let mut carried = score.clone();
    carried.n_katu = None;
    carried.n_geki = None;
    carried.large_tick_hits = None;
    carried.small_tick_hits = None;
    carried.slider_end_hits = None;
    carried.state = None;
    if src_mode == GameMode::Osu && !src_is_convert {
        let before = match carried.apply(Performance::new(&map).difficulty(d.clone())).try_mode(target) {
            Ok(p) => p.calculate(),
            Err(_) => return Err("Performance::try_mode refused a possible conversion (score setters applied first)".into()),
        };
        let after = carried.apply(Performance::new(&explicit).difficulty(d.clone())).calculate();
        same("score setters applied before try_mode vs on the explicitly converted map", &before, &after)?;
        let before2 = carried.apply(Performance::new(&map).difficulty(d.clone())).mode_or_ignore(target).calculate();
        same("score setters applied before mode_or_ignore vs on the explicitly converted map", &before2, &after)?;
        info.comparisons += 2;
    }

    // the same with an accuracy that sits exactly midway between two achievable ones, where the last bit of the
    // stored accuracy decides which distribution is generated (the setter is duplicated per mode)
    if src_mode == GameMode::Osu && !src_is_convert && target != GameMode::Osu {
        let n = match &via_explicit {
            DifficultyAttributes::Taiko(a) => a.max_combo,
            DifficultyAttributes::Catch(a) => a.n_fruits + a.n_droplets + a.n_tiny_droplets,
            DifficultyAttributes::Mania(a) => a.n_objects,
            DifficultyAttributes::Osu(a) => a.n_objects(),
        };
        if n > 0 {
            for _ in 0..3 {
                let j = t.range(0, i64::from(n) * 2 - 1) as f64;
                // achievable taiko accuracies are j/(2n): midpoints (2j+1)/(4n); catch k/n: midpoints (2k+1)/(2n)
                let acc = match target {
                    GameMode::Taiko => 25.0 * (2.0 * j + 1.0) / f64::from(n),
                    _ => 50.0 * (j + 1.0) / f64::from(n),
                };
                let tie = crate::gen::score::ScoreSpec { accuracy: Some(acc), misses: if t.coin() { Some(0) } else { None }, worst_case: score.worst_case, ..Default::default() };
                let before = tie.apply(Performance::new(&map).difficulty(d.clone())).mode_or_ignore(target).calculate();
                let after = tie.apply(Performance::new(&explicit).difficulty(d.clone())).calculate();
                same(&format!("accuracy {acc} (a midpoint of achievable accuracies) set before mode_or_ignore vs on the explicitly converted map"), &before, &after)?;
                info.comparisons += 1;
            }
            info.label("tie-accuracies");
        }
    }

    // attribute-based calculators cannot change mode
    let attr_based = Performance::new(via_explicit.clone());
    let other = MODES[(mode_idx(target) as usize + 1) % 4];
    let before = attr_based.clone();
    if let Ok(_) = attr_based.try_mode(other) {
        return Err("try_mode converted an attribute-based calculator".into());
    }
    if before.clone().mode_or_ignore(other) != before {
        return Err("mode_or_ignore changed an attribute-based calculator".into());
    }

    let has_slider = spec.has_kind("slider");
    info.label_if(explicit.is_convert, "real-conversion");
    info.nontrivial = src_mode == GameMode::Osu && target != GameMode::Osu && spec.objects.len() >= 3 && has_slider;
    info.set_key(&format!("{spec:?}{dspec:?}{target:?}{already_converted}{score:?}"));
    Ok(())
}

pub fn property() -> Property {
    Property {
        id: "C07",
        subchecks: vec![SubCheck {
            name: "conversion-and-dispatch",
            rule: "G-MAP of all four native modes (1/8 of osu maps pre-converted, 1/12 of the others with the public is_convert flag set by hand) x uniform target mode x mods incl. key mods/Random/HO/IN/MR in all representations x G-DIFF x score spec. Oracle: convert / convert_ref / convert_mut give == maps or the same error (same variant and fields, whichever it is) (failed convert_mut leaves the map unchanged); own mode => identity and Cow::Borrowed; Ok iff target==mode or un-converted osu; result has mode==target and is_convert; calculate_for_mode, strains_for_mode, GradualDifficulty::new_with_mode / Beatmap::gradual_difficulty / Difficulty::gradual_difficulty / gradual_difficulty_for_mode::<M> (drained), GradualPerformance::new_with_mode (stepped with nth) and Beatmap::gradual_performance / Difficulty::gradual_performance / gradual_performance_for_mode::<M> (mode-specific calculator; walked with next and last, len() compared), Performance::try_mode / mode_or_ignore / <Mode>Performance::new(&src) all same-value-equal to the same call on the explicitly converted map; mods changed after the mode switch act on the map converted with the earlier mods (borrowed and owned maps); on impossible conversions every entry point refuses and try_mode returns the unchanged calculator. Non-trivial: osu source with >=3 objects incl. a slider and target != osu, or an error path from a non-osu/converted source.",
            quick: 40_000,
            thorough: 150_000,
            tape_len: 1500,
            f: case,
            direct: None,
        }],
        assumptions: &[],
        enumerate: None,
    }
}
