//! C16 — strain output is consistent with the star rating it explains.

use rosu_pp::{
    any::{DifficultyAttributes, Strains},
    model::mode::GameMode,
};
use serde_json::json;

use super::{
    common::{calc_for_mode, gen_map_case, strains_for_mode},
    Property,
};
use crate::{
    engine::{CaseInfo, SubCheck},
    gen::{
        diff::{mode_name, DiffProfile, LazerExtra, AP, RX, TD},
        map::{MapProfile, ALL_MODES},
    },
    known,
    tape::Tape,
};

pub const K_MANIA_STRAINS_MODS: &str = "C16/mania-strains-ignore-lazer-transform-mods";

/// Documented aggregation: drop non-positive peaks, sort descending, sum peak * w^i.
fn weighted(peaks: &[f64], w: f64) -> f64 {
    let mut v: Vec<f64> = peaks.iter().copied().filter(|p| *p > 0.0).collect();
    v.sort_by(|a, b| b.total_cmp(a));
    let mut sum = 0.0;
    let mut weight = 1.0;
    for p in v {
        sum += p * weight;
        weight *= w;
    }
    sum
}

fn close(a: f64, b: f64) -> bool {
    a == b || (a - b).abs() <= 1e-12 * a.abs().max(b.abs())
}

/// The final scaling constant of a rating (catch 4.59, mania 0.018, flashlight 0.0675 at the pinned commit) is not part of the property: it is *calibrated* on a fixed reference
/// map per class, so a rebalanced constant does not raise an alarm while a rating that stops following from
/// the peaks does. What stays fixed is what the property names: the decay-weighted sum (0.94 catch, 0.9
/// default), the plain sum for flashlight, the square root, and flashlight's documented mod adjustments (TouchDevice ^0.8, then
/// Relax x0.7 or Autopilot x0.4) in their documented order.
fn reference_ratio(class: usize) -> Result<f64, String> {
    use std::sync::OnceLock;
    static CAL: [OnceLock<Result<f64, String>>; 3] = [const { OnceLock::new() }; 3];
    CAL[class]
        .get_or_init(|| {
            let mut text = String::from("osu file format v14\n\n[General]\nMode: ");
            text.push_str(match class {
                0 => "2",
                1 => "3",
                _ => "0",
            });
            text.push_str("\n\n[Difficulty]\nHPDrainRate:5\nCircleSize:4\nOverallDifficulty:7\nApproachRate:8\nSliderMultiplier:1.4\nSliderTickRate:1\n\n[TimingPoints]\n0,400,4,1,0,100,1,0\n\n[HitObjects]\n");
            for i in 0..40 {
                let x = [64, 448, 192, 320][i % 4];
                text.push_str(&format!("{x},{},{},1,0,0:0:0:0:\n", 100 + (i * 37) % 200, 1000 + i * 180));
            }
            let map = rosu_pp::Beatmap::from_bytes(text.as_bytes()).map_err(|e| e.to_string())?;
            let (mode, bits) = match class {
                0 => (GameMode::Catch, 0),
                1 => (GameMode::Mania, 0),
                // (with the Flashlight mod on: the rating need not be evaluated at all without it)
                _ => (GameMode::Osu, crate::gen::diff::FL),
            };
            let d = rosu_pp::Difficulty::new().mods(bits);
            let strains = strains_for_mode(&d, &map, mode)?;
            let attrs = calc_for_mode(&d, &map, mode)?;
            let (base, reported) = base_and_reported(&strains, &attrs, bits).ok_or("reference map: no rating")?;
            if !(base > 1e-6) {
                return Err(format!("reference map of class {class} has no usable peaks (base {base})"));
            }
            Ok(reported / base)
        })
        .clone()
}

/// (documented aggregation of the returned peaks, reported rating) for the ratings the property pins down.
fn base_and_reported(strains: &Strains, attrs: &DifficultyAttributes, bits: u32) -> Option<(f64, f64)> {
    match (strains, attrs) {
        (Strains::Catch(s), DifficultyAttributes::Catch(a)) => Some((weighted(&s.movement, 0.94).sqrt(), a.stars)),
        (Strains::Mania(s), DifficultyAttributes::Mania(a)) => Some((weighted(&s.strains, 0.9), a.stars)),
        (Strains::Osu(s), DifficultyAttributes::Osu(a)) => {
            let _ = bits;
            Some((s.flashlight.iter().sum::<f64>().sqrt(), a.flashlight))
        }
        _ => None,
    }
}

pub fn case(t: &mut Tape, info: &mut CaseInfo) -> Result<(), String> {
    let mut prof = MapProfile::small(ALL_MODES, 50);
    prof.long_gaps = true;
    run(t, info, &prof, false)
}

/// Long dense maps: hundreds of comparable non-zero sections, so that the tail of the weighted sum matters.
fn case_long(t: &mut Tape, info: &mut CaseInfo) -> Result<(), String> {
    let mut prof = MapProfile::realistic(ALL_MODES, 1500);
    prof.size_weights = [0, 0, 1];
    prof.long_gaps = false;
    prof.marathon_one_in = 0;
    run(t, info, &prof, true)
}

fn run(t: &mut Tape, info: &mut CaseInfo, prof: &MapProfile, long: bool) -> Result<(), String> {
    run_with(t, info, prof, long, true)
}

/// The peak-list part of the oracle alone (finite, non-negative, equal lengths): what C11 needs to know about
/// the lists that leave the library; the re-aggregation belongs to C16.
pub fn case_lists_only(t: &mut Tape, info: &mut CaseInfo) -> Result<(), String> {
    let mut prof = MapProfile::small(ALL_MODES, 50);
    prof.long_gaps = true;
    run_with(t, info, &prof, false, false)
}

fn run_with(t: &mut Tape, info: &mut CaseInfo, prof: &MapProfile, long: bool, reaggregate: bool) -> Result<(), String> {
    let c = gen_map_case(t, info, prof, &DiffProfile::realistic().passed(0), false);
    if info.want_sample {
        info.sample = Some(json!({"map": c.spec.sample(), "target": mode_name(c.target), "difficulty": c.dspec.describe()}));
    }
    let lazer_transform = c.dspec.mods.effective_extras(c.target).iter().any(|e| matches!(e, LazerExtra::HoldOff | LazerExtra::Invert | LazerExtra::Random(_)));
    if lazer_transform && matches!(c.target, GameMode::Mania | GameMode::Taiko) && known::is_open(K_MANIA_STRAINS_MODS) {
        info.excluded_known += 1;
        info.label("skipped:open-strains-transform-mods");
        return Ok(());
    }
    let strains = strains_for_mode(&c.d, &c.map, c.target)?;
    let attrs = calc_for_mode(&c.d, &c.map, c.target)?;
    let vectors: Vec<(&str, &Vec<f64>)> = match &strains {
        Strains::Osu(s) => vec![("aim", &s.aim), ("aim_no_sliders", &s.aim_no_sliders), ("speed", &s.speed), ("flashlight", &s.flashlight)],
        Strains::Taiko(s) => vec![
            ("color", &s.color),
            ("reading", &s.reading),
            ("rhythm", &s.rhythm),
            ("stamina", &s.stamina),
            ("single_color_stamina", &s.single_color_stamina),
        ],
        Strains::Catch(s) => vec![("movement", &s.movement)],
        Strains::Mania(s) => vec![("strains", &s.strains)],
    };
    let len0 = vectors[0].1.len();
    for (name, v) in &vectors {
        if v.len() != len0 {
            return Err(format!("{name} has {} sections, {} has {len0}", v.len(), vectors[0].0));
        }
        for (i, p) in v.iter().enumerate() {
            if !p.is_finite() || *p < 0.0 {
                return Err(format!("{name}[{i}] = {p} is not a finite non-negative peak"));
            }
        }
    }
    let expected_len = if c.target == GameMode::Catch { 750.0 } else { 400.0 };
    if strains.section_len() != expected_len {
        return Err(format!("section_len {} != {expected_len}", strains.section_len()));
    }
    info.comparisons += 1;
    let bits = c.dspec.mods.bits;
    match (&strains, &attrs) {
        _ if !reaggregate => {}
        (Strains::Taiko(_), DifficultyAttributes::Taiko(_)) => {}
        (Strains::Catch(_), DifficultyAttributes::Catch(_)) | (Strains::Mania(_), DifficultyAttributes::Mania(_)) | (Strains::Osu(_), DifficultyAttributes::Osu(_)) => {
            let (class, what) = match c.target {
                GameMode::Catch => (0, "catch stars"),
                GameMode::Mania => (1, "mania stars"),
                _ => (2, "osu flashlight"),
            };
            let (base, reported) = base_and_reported(&strains, &attrs, bits).ok_or("no rating")?;
            let mut expected = base * reference_ratio(class)?;
            if class == 2 {
                // the documented mod adjustments of the flashlight rating, in their documented order
                if bits & TD != 0 {
                    expected = expected.powf(0.8);
                }
                if bits & RX != 0 {
                    expected *= 0.7;
                } else if bits & AP != 0 {
                    expected *= 0.4;
                }
            }
            if !close(expected, reported) {
                return Err(format!("{what} {reported} vs re-aggregated {expected}"));
            }
        }
        _ => return Err("strains and attributes are of different modes".into()),
    }
    info.comparisons += 1;
    let main = vectors[0].1;
    let nz: Vec<usize> = main.iter().enumerate().filter(|(_, p)| **p > 0.0).map(|(i, _)| i).collect();
    let zero_between = nz.windows(2).any(|w| w[1] - w[0] > 1);
    info.label_if(zero_between, "zero-run-between-peaks");
    info.label_if(c.dspec.passed.is_some(), "passed_objects");
    info.nontrivial = nz.len() >= 2 && zero_between;
    if long {
        let max = main.iter().copied().fold(0.0, f64::max);
        let comparable = main.iter().filter(|p| **p > 0.0 && **p >= max * 0.01).count();
        info.label_if(comparable > 400, ">400-comparable-peaks");
        info.label_if(comparable > 800, ">800-comparable-peaks");
        info.nontrivial = comparable > 400;
    }
    info.set_key(&format!("{:?}{:?}{:?}", c.spec, c.dspec, c.target));
    Ok(())
}

pub fn property() -> Property {
    Property {
        id: "C16",
        subchecks: vec![SubCheck {
            name: "strains-reaggregate",
            rule: "G-MAP (all modes + converts, <=50 objects, long breaks and negative first times) x G-DIFF incl. passed_objects. Oracle: all peaks finite and >= 0; all vectors of a Strains value have equal length; section_len 400 (750 catch); harness re-implementation of the documented aggregation (drop non-positive, sort descending, sum peak*w^i): catch stars = k*sqrt(sum, w=0.94), mania stars = k*sum(w=0.9), osu flashlight = k*sqrt(plain sum) then ^0.8 (TD), *0.7 (RX) / *0.4 (AP), where the scaling constant k of each rating is calibrated on a fixed reference map instead of being hard-coded; relative tolerance 1e-12 against calculate() with the same settings. Non-trivial: >=2 non-zero peaks with >=1 zero section between them.",
            quick: 60_000,
            thorough: 200_000,
            tape_len: 1500,
            f: case,
            direct: None,
        }, SubCheck {
            name: "long-dense-maps",
            rule: "as strains-reaggregate, on G-MAP maps of 21..1500 objects without long gaps (mean gap ~0.5 s: up to ~1700 catch / ~1700 other sections) x G-DIFF incl. passed_objects. Non-trivial: more than 400 non-zero peaks of at least 1% of the largest peak (the tail of the decay-weighted sum beyond the 400th term is then of relative size ~1e-11, above the 1e-12 tolerance).",
            quick: 1_500,
            thorough: 10_000,
            tape_len: 16000,
            f: case_long,
            direct: None,
        }],
        assumptions: &["re-aggregation compares the harness's re-implementation of the documented formula with the library: relative tolerance 1e-12; the final scaling constants are calibrated on a reference map per rating class (a rebalanced multiplier is not a violation)"],
        enumerate: None,
    }
}
