//! Structural well-formedness predicates shared by C06 (decoded maps) and C19 (converted maps).

use rosu_pp::{
    model::hit_object::{HitObjectKind, HoldNote, Spinner},
    Beatmap,
};

pub fn strictly_increasing(name: &str, times: impl Iterator<Item = f64>) -> Result<(), String> {
    let mut prev: Option<f64> = None;
    for (i, t) in times.enumerate() {
        if !t.is_finite() {
            return Err(format!("{name}[{i}].time = {t} is not finite"));
        }
        if let Some(p) = prev {
            // the order the code's own binary searches use
            if p.total_cmp(&t) != std::cmp::Ordering::Less {
                return Err(format!("{name} not strictly increasing at {i}: {p} then {t}"));
            }
        }
        prev = Some(t);
    }
    Ok(())
}

/// Order, durations, control points — what every downstream calculator indexes with.
pub fn check_structure(m: &Beatmap) -> Result<(), String> {
    let mut prev = f64::NEG_INFINITY;
    for (i, h) in m.hit_objects.iter().enumerate() {
        if !h.start_time.is_finite() {
            return Err(format!("hit_objects[{i}].start_time = {} is not finite", h.start_time));
        }
        if h.start_time < prev {
            return Err(format!("hit_objects not sorted at {i}: {prev} then {}", h.start_time));
        }
        prev = h.start_time;
        if !h.pos.x.is_finite() || !h.pos.y.is_finite() {
            return Err(format!("hit_objects[{i}].pos = {:?} not finite", h.pos));
        }
        match &h.kind {
            HitObjectKind::Spinner(Spinner { duration }) | HitObjectKind::Hold(HoldNote { duration }) => {
                if !duration.is_finite() || *duration < 0.0 {
                    return Err(format!("hit_objects[{i}] duration {duration} is negative or not finite"));
                }
            }
            HitObjectKind::Slider(s) => {
                if let Some(d) = s.expected_dist {
                    if !(d > 0.0 && d <= 131_072.0) {
                        return Err(format!("hit_objects[{i}] expected_dist {d} outside (0, 131072]"));
                    }
                }
                if s.repeats > 8999 {
                    return Err(format!("hit_objects[{i}] repeats {} > 8999", s.repeats));
                }
                for (j, p) in s.control_points.iter().enumerate() {
                    if !p.pos.x.is_finite() || !p.pos.y.is_finite() {
                        return Err(format!("hit_objects[{i}] control point {j} = {:?} not finite", p.pos));
                    }
                }
                if s.node_sounds.len() != s.repeats + 2 {
                    return Err(format!("hit_objects[{i}] has {} node sounds for {} repeats", s.node_sounds.len(), s.repeats));
                }
            }
            HitObjectKind::Circle => {}
        }
    }
    strictly_increasing("timing_points", m.timing_points.iter().map(|p| p.time))?;
    strictly_increasing("difficulty_points", m.difficulty_points.iter().map(|p| p.time))?;
    strictly_increasing("effect_points", m.effect_points.iter().map(|p| p.time))?;
    Ok(())
}
