//! C02 — gradual difficulty ≡ one-shot difficulty on the played prefix.

use rosu_pp::{model::mode::GameMode, Beatmap, GradualDifficulty};
use serde_json::{json, Value};

use super::{
    common::{calc_for_mode, has_long_gap, pick_target, skip_open_taiko, steer_taiko},
    Property,
};
use crate::{
    canon::same,
    engine::{CaseInfo, SubCheck},
    gen::{
        diff::{gen_diff, mode_from_name, mode_name, DiffProfile, DiffSpec},
        map::{gen_map, map_labels, MapProfile, ALL_MODES},
    },
    tape::Tape,
};

/// The oracle on an explicit case. Returns the number of values the calculator produced.
pub fn oracle(text: &str, target: GameMode, dspec: &DiffSpec, info: &mut CaseInfo) -> Result<usize, String> {
    let map = Beatmap::from_bytes(text.as_bytes()).map_err(|e| format!("decode: {e}"))?;
    let d = dspec.build(target);
    let mut g = GradualDifficulty::new_with_mode(d.clone(), &map, target).map_err(|e| format!("gradual ctor: {e}"))?;
    let announced = g.len();
    let mut values = Vec::with_capacity(announced);
    let cap = announced * 2 + 64;
    while let Some(v) = g.next() {
        values.push(v);
        if values.len() > cap {
            return Err(format!("gradual calculator yields more than {cap} values (announced {announced})"));
        }
    }
    if values.len() != announced {
        return Err(format!("announced len()={announced} but produced {} values", values.len()));
    }
    for (i, v) in values.iter().enumerate() {
        let expected = calc_for_mode(&d.clone().passed_objects(i as u32 + 1), &map, target)?;
        info.comparisons += 1;
        same(&format!("value #{} vs passed_objects({})", i + 1, i + 1), v, &expected)?;
    }
    if let Some(last) = values.last() {
        let full = calc_for_mode(&d, &map, target)?;
        info.comparisons += 1;
        same("final gradual value vs full one-shot", last, &full)?;
        // the final value reached through Iterator::last (by value), on a fresh calculator and after some values
        // have been consumed
        for k in [0, 1, values.len() / 2] {
            if k >= values.len() {
                continue;
            }
            let mut g = GradualDifficulty::new_with_mode(d.clone(), &map, target).map_err(|e| format!("gradual ctor: {e}"))?;
            for _ in 0..k {
                let _ = g.next();
            }
            let via_last = g.last().ok_or_else(|| format!("last() after {k} values returned None although values remained"))?;
            info.comparisons += 1;
            same(&format!("last() after {k} consumed values vs full one-shot"), &via_last, &full)?;
        }
    }
    Ok(values.len())
}

fn direct(v: &Value) -> Result<(), String> {
    let text = v.get("osu").and_then(Value::as_str).ok_or("direct case lacks `osu`")?;
    let target = mode_from_name(v.get("target").and_then(Value::as_str).unwrap_or("Osu"));
    let dspec = DiffSpec::from_json(v.get("difficulty").unwrap_or(&Value::Null)).ok_or("bad `difficulty`")?;
    oracle(text, target, &dspec, &mut CaseInfo::default()).map(|_| ())
}

fn run(t: &mut Tape, info: &mut CaseInfo, max_objects: usize, wide: bool) -> Result<(), String> {
    let profile = MapProfile::small(ALL_MODES, max_objects);
    let mut spec = gen_map(t, &profile);
    let target = pick_target(t, spec.mode);
    steer_taiko(&mut spec, target, info);
    let dprof = if wide { DiffProfile::wide() } else { DiffProfile::realistic() };
    let dspec = gen_diff(t, &dprof, target);
    let text = spec.render();

    map_labels(&spec, info);
    info.label(format!("target={target:?}"));
    info.label_if(spec.mode == 0 && target != GameMode::Osu, "convert");
    info.label_if(!dspec.is_default(), "non-default-difficulty");
    info.label_if(dspec.clock_rate.is_some(), "custom-clock-rate");
    if info.want_sample {
        info.sample = Some(json!({"map": spec.sample(), "target": mode_name(target), "difficulty": dspec.describe()}));
        info.direct = Some(json!({"osu": text, "target": mode_name(target), "difficulty": dspec.to_json()}));
    }
    let map = spec.decode();
    if skip_open_taiko(&map, &dspec.build(target), target, info)? {
        return Ok(());
    }
    let k = oracle(&text, target, &dspec, info)?;
    info.nontrivial = k >= 3
        && (!dspec.is_default()
            || spec.objects.first().is_some_and(|o| o.kind_name() != "circle")
            || (spec.mode == 0 && target != GameMode::Osu)
            || has_long_gap(&map));
    info.set_key(&format!("{spec:?}{dspec:?}{target:?}"));
    Ok(())
}

fn case_small(t: &mut Tape, info: &mut CaseInfo) -> Result<(), String> {
    run(t, info, 40, false)
}

fn case_wide(t: &mut Tape, info: &mut CaseInfo) -> Result<(), String> {
    run(t, info, 120, true)
}

pub fn property() -> Property {
    Property {
        id: "C02",
        subchecks: vec![
            SubCheck {
                name: "prefix-equality",
                rule: "G-MAP (all four modes + osu converted to taiko/catch/mania, sizes 0-3 emphasised, <=40 objects, first/last kind uniform) x G-DIFF (mods in 5 representations, clock rates in [0.5,2], overrides; no preset passed_objects). Oracle: drain the gradual calculator with next(); count == len() at creation; value i same-value-equal (all fields) to passed_objects(i) one-shot; last == unlimited one-shot. Non-trivial: >=3 values and (non-default settings or first object not a circle or convert or a gap >=5s). Distinct = hash of (map spec, settings, target).",
                quick: 30_000,
                thorough: 80_000,
                tape_len: 1400,
                f: case_small,
                direct: Some(direct),
            },
            SubCheck {
                name: "prefix-equality-wide",
                rule: "same oracle; maps up to 120 objects and the wide settings domain (clock rate 0.01..100 and out-of-range values that get clamped, overrides in [-20,20] and beyond).",
                quick: 3000,
                thorough: 12_000,
                tape_len: 4000,
                f: case_wide,
                direct: Some(direct),
            },
        ],
        assumptions: &[
            "maps enter through Beatmap::from_bytes on generated .osu text",
            "a preset passed_objects on the gradual calculator's Difficulty is outside the property (not generated)",
        ],
        enumerate: None,
    }
}
