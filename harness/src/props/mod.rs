//! Registry of properties → sub-checks.

use crate::engine::SubCheck;

pub mod common;
pub mod c02;
pub mod c15;

pub struct Property {
    pub id: &'static str,
    pub subchecks: Vec<SubCheck>,
    pub assumptions: &'static [&'static str],
}

pub fn property(id: &str) -> Option<Property> {
    match id {
        "C02" => Some(c02::property()),
        "C15" => Some(c15::property()),
        _ => None,
    }
}

pub const ALL: &[&str] = &["C02", "C15"];
