//! Registry of properties → sub-checks.

use crate::engine::SubCheck;

pub mod common;
pub mod c01;
pub mod c02;
pub mod c03;
pub mod c04;
pub mod c05;
pub mod c06;
pub mod c07;
pub mod c08;
pub mod c09;
pub mod c11;
pub mod c12;
pub mod c13;
pub mod c14;
pub mod c16;
pub mod c17;
pub mod c18;
pub mod c19;
pub mod c20;
pub mod wellformed;
pub mod c15;

/// Result of a deterministic enumeration stage (exhaustive small-domain search).
pub struct EnumReport {
    pub name: &'static str,
    pub rule: String,
    pub evaluations: u64,
    pub distinct_nontrivial: u64,
    pub space_size: u64,
    pub exhaustive: bool,
    pub samples: Vec<serde_json::Value>,
    /// (message, explicit case for the replay file)
    pub failure: Option<(String, serde_json::Value)>,
}

pub struct Property {
    pub id: &'static str,
    pub subchecks: Vec<SubCheck>,
    pub assumptions: &'static [&'static str],
    /// optional exhaustive enumeration stage: f(thorough) -> report
    pub enumerate: Option<fn(bool) -> EnumReport>,
}

pub fn property(id: &str) -> Option<Property> {
    match id {
        "C01" => Some(c01::property()),
        "C02" => Some(c02::property()),
        "C03" => Some(c03::property()),
        "C04" => Some(c04::property()),
        "C06" => Some(c06::property()),
        "C07" => Some(c07::property()),
        "C08" => Some(c08::property()),
        "C09" => Some(c09::property()),
        "C11" => Some(c11::property()),
        "C12" => Some(c12::property()),
        "C13" => Some(c13::property()),
        "C14" => Some(c14::property()),
        "C16" => Some(c16::property()),
        "C17" => Some(c17::property()),
        "C18" => Some(c18::property()),
        "C19" => Some(c19::property()),
        "C20" => Some(c20::property()),
        "C15" => Some(c15::property()),
        _ => None,
    }
}

pub const ALL: &[&str] = &["C01", "C02", "C03", "C04", "C06", "C07", "C08", "C09", "C11", "C12", "C13", "C14", "C15", "C16", "C17", "C18", "C19", "C20"];
