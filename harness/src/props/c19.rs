//! C19 — converted maps are well-formed inputs of their target mode.

use rosu_pp::model::{hit_object::HitObjectKind, mode::GameMode};
use serde_json::json;

use super::{wellformed::check_structure, Property};
use crate::{
    engine::{CaseInfo, SubCheck},
    gen::{
        diff::{mode_name, LazerExtra, ModRepr, ModsSpec, KEY_BITS},
        map::{gen_map, map_labels, MapProfile, ObjKind, OSU_ONLY},
    },
    tape::Tape,
};

fn case(t: &mut Tape, info: &mut CaseInfo) -> Result<(), String> {
    let mut prof = MapProfile::small(OSU_ONLY, 40);
    prof.adversarial = t.chance(1, 5);
    let mut spec = gen_map(t, &prof);
    // time-tagged sounds on circles and spinners: sound = f(start time), so a reordering that
    // separates an object from its sound is visible after conversion
    let tag = |time: f64| -> u8 { ((time.abs() as u64).wrapping_mul(37).wrapping_add(11) % 251) as u8 };
    for o in &mut spec.objects {
        if !matches!(o.kind, ObjKind::Slider { .. }) {
            o.sound = tag(o.time);
            o.custom_sample = false;
        }
    }
    // the short-slider -> hit burst regime of the taiko converter
    if t.chance(1, 2) {
        for o in &mut spec.objects {
            if let ObjKind::Slider { len, slides, .. } = &mut o.kind {
                if t.chance(1, 2) {
                    *len = Some(t.range(20, 160) as f64);
                    *slides = t.range(1, 3) as i32;
                }
            }
        }
    }
    let target = *t.pick(&[GameMode::Taiko, GameMode::Catch, GameMode::Mania]);
    let key_idx = if target == GameMode::Mania && t.chance(2, 3) { Some(t.below_usize(10)) } else { None };
    let mods = match key_idx {
        None => ModsSpec { bits: 0, repr: *t.pick(&[ModRepr::U32, ModRepr::Intermode, ModRepr::Lazer]), extras: Vec::new() },
        Some(9) => ModsSpec { bits: 0, repr: ModRepr::Lazer, extras: vec![LazerExtra::TenKeys] },
        Some(i) => ModsSpec { bits: KEY_BITS[i], repr: *t.pick(&[ModRepr::U32, ModRepr::Legacy, ModRepr::Intermode, ModRepr::IntermodeRef, ModRepr::Lazer]), extras: Vec::new() },
    };
    // a tenth of the files lists its objects out of chronological order (the decoder has to order them;
    // the catch conversion leaves the objects as it finds them)
    let src = if t.chance(1, 10) && spec.objects.len() >= 2 {
        let mut shuffled = spec.clone();
        for i in (1..shuffled.objects.len()).rev() {
            let j = t.below_usize(i + 1);
            shuffled.objects.swap(i, j);
        }
        info.label("object-lines-out-of-order");
        rosu_pp::Beatmap::from_bytes(shuffled.render().as_bytes()).map_err(|e| format!("decode: {e}"))?
    } else {
        spec.decode()
    };
    map_labels(&spec, info);
    info.label(format!("target={target:?}"));
    if let Some(i) = key_idx {
        info.label(format!("keys={}K", i + 1));
    }
    if info.want_sample {
        info.sample = Some(json!({"map": spec.sample(), "target": mode_name(target), "mods": mods.describe()}));
    }
    let conv = src.clone().convert(target, &mods.build(target)).map_err(|e| format!("conversion failed: {e}"))?;
    info.comparisons += 1;
    if conv.mode != target || !conv.is_convert {
        return Err(format!("converted map has mode {:?} / is_convert {}", conv.mode, conv.is_convert));
    }
    check_structure(&conv)?;
    let mut burst = false;
    match target {
        GameMode::Taiko => {
            if conv.hit_sounds.len() != conv.hit_objects.len() {
                return Err(format!("taiko convert: {} sounds for {} objects", conv.hit_sounds.len(), conv.hit_objects.len()));
            }
            for (i, h) in conv.hit_objects.iter().enumerate() {
                if h.is_hold_note() {
                    return Err(format!("taiko convert: object {i} is still a hold note"));
                }
            }
            // every source circle/spinner whose start time is unique in the converted map keeps its sound
            for (h, s) in src.hit_objects.iter().zip(&src.hit_sounds) {
                if h.is_slider() {
                    continue;
                }
                let same_time: Vec<usize> =
                    conv.hit_objects.iter().enumerate().filter(|(_, c)| c.start_time == h.start_time).map(|(i, _)| i).collect();
                if let [only] = same_time.as_slice() {
                    if conv.hit_sounds[*only] != *s {
                        return Err(format!(
                            "taiko convert: object at {} had sound {} and now has {}",
                            h.start_time,
                            u8::from(*s),
                            u8::from(conv.hit_sounds[*only])
                        ));
                    }
                    info.comparisons += 1;
                } else if same_time.is_empty() {
                    return Err(format!("taiko convert: source object at {} disappeared", h.start_time));
                }
            }
            let n_src_sliders = src.hit_objects.iter().filter(|h| h.is_slider()).count();
            let n_conv_sliders = conv.hit_objects.iter().filter(|h| h.is_slider()).count();
            burst = n_conv_sliders < n_src_sliders && conv.hit_objects.len() > src.hit_objects.len();
            info.label_if(burst, "slider-split-into-hits");
        }
        GameMode::Mania => {
            let k = conv.cs;
            match key_idx {
                Some(i) => {
                    if k != (i + 1) as f32 {
                        return Err(format!("mania convert: cs = {k} but the key mod asks for {}", i + 1));
                    }
                }
                None => {
                    if !(4.0..=7.0).contains(&k) || k.fract() != 0.0 {
                        return Err(format!("mania convert: key count {k} outside 4..=7"));
                    }
                }
            }
            for (i, h) in conv.hit_objects.iter().enumerate() {
                match h.kind {
                    HitObjectKind::Circle | HitObjectKind::Hold(_) => {}
                    _ => return Err(format!("mania convert: object {i} is neither a note nor a hold note")),
                }
                let x = h.pos.x;
                if !(0.0..512.0).contains(&x) {
                    return Err(format!("mania convert: object {i} x = {x} outside [0, 512)"));
                }
                // the column *without* the clamp the library applies
                let col = (x / (512.0 / k)).floor();
                if col > k - 1.0 {
                    return Err(format!("mania convert: object {i} at x = {x} falls into column {col} of {k}"));
                }
            }
            if !conv.hit_sounds.is_empty() && conv.hit_sounds.len() != conv.hit_objects.len() {
                return Err(format!("mania convert: {} sounds for {} objects", conv.hit_sounds.len(), conv.hit_objects.len()));
            }
        }
        GameMode::Catch => {
            if conv.hit_objects != src.hit_objects || conv.hit_sounds != src.hit_sounds {
                return Err("catch convert changed the objects or sounds".into());
            }
            if conv.timing_points != src.timing_points || conv.difficulty_points != src.difficulty_points || conv.effect_points != src.effect_points {
                return Err("catch convert changed control points".into());
            }
        }
        GameMode::Osu => unreachable!(),
    }
    info.nontrivial = spec.objects.len() >= 5 && (burst || (target == GameMode::Mania && key_idx.is_some()));
    info.set_key(&format!("{spec:?}{target:?}{mods:?}"));
    Ok(())
}

pub fn property() -> Property {
    Property {
        id: "C19",
        subchecks: vec![SubCheck {
            name: "converted-map-wellformed",
            rule: "(a tenth of the source files lists its objects out of chronological order) osu G-MAP (all object mixes, 1/5 with adversarial numeric corners, slider lengths/repeats incl. the short-slider->hit-burst regime, time-tagged hit sounds on circles/spinners, node sounds, SV changes, versions <8 and >=8) x target taiko/catch/mania x key mods 1K-10K in every representation. Oracle: mode==target, is_convert; hit_objects non-decreasing; durations finite >= 0; the three control-point vectors strictly increasing (total_cmp); taiko: one sound per object, no hold notes, every source circle/spinner with a unique start time keeps its tagged sound; mania: cs == key-mod value else an integer in 4..=7, only notes/hold notes, 0<=x<512 and floor(x/(512/K))<=K-1 without the library's clamp; catch: objects, sounds and control points == source. Non-trivial: >=5 source objects and (a slider split into hits or a mania convert with a key mod).",
            quick: 300_000,
            thorough: 3_000_000,
            tape_len: 1500,
            f: case,
            direct: None,
        }],
        assumptions: &[],
        enumerate: None,
    }
}
