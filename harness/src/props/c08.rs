//! C08 — results do not depend on how equivalent settings are expressed.

use rosu_pp::model::{
    mode::GameMode,
    mods::rosu_mods::{GameModsIntermode, GameModsLegacy},
};
use rosu_pp::{Difficulty, GameMods};
use serde_json::json;

use super::{
    common::{calc_for_mode, perf_for_mode, pick_target, strains_for_mode},
    Property,
};
use crate::{
    canon::Canon,
    engine::{CaseInfo, SubCheck},
    gen::{
        diff::{gen_mod_bits, mode_name, mods_mode, LazerExtra, ModRepr, ModsSpec, ALL_REPRS, DT, EZ, HR, HT, NC},
        map::{gen_map, map_labels, MapProfile, ALL_MODES},
        score::gen_score_spec,
    },
    tape::Tape,
};

fn all_results(
    what: &str,
    d: &Difficulty,
    map: &rosu_pp::Beatmap,
    target: GameMode,
    score: &crate::gen::score::ScoreSpec,
    mods: &GameMods,
) -> Result<Vec<(String, crate::canon::Dump)>, String> {
    let mut out = Vec::new();
    out.push((format!("{what}: difficulty"), calc_for_mode(d, map, target)?.dump()));
    out.push((format!("{what}: strains"), strains_for_mode(d, map, target)?.dump()));
    // through Difficulty
    out.push((
        format!("{what}: performance(difficulty)"),
        score.apply(perf_for_mode(map, target).difficulty(d.clone())).calculate().dump(),
    ));
    // through Performance::mods
    let inspect = d.clone().inspect();
    let mut p = perf_for_mode(map, target).mods(mods.clone());
    if let Some(c) = inspect.clock_rate {
        p = p.clock_rate(c);
    }
    if let Some(v) = inspect.ar {
        p = p.ar(v.value, v.with_mods);
    }
    if let Some(v) = inspect.cs {
        p = p.cs(v.value, v.with_mods);
    }
    if let Some(v) = inspect.hp {
        p = p.hp(v.value, v.with_mods);
    }
    if let Some(v) = inspect.od {
        p = p.od(v.value, v.with_mods);
    }
    if let Some(l) = inspect.lazer {
        p = p.lazer(l);
    }
    if let Some(n) = inspect.passed_objects {
        p = p.passed_objects(n);
    }
    if let Some(h) = inspect.hardrock_offsets {
        p = p.hardrock_offsets(h);
    }
    out.push((format!("{what}: performance(mods)"), score.apply(p).calculate().dump()));
    // attribute builder
    let explicit = map.convert_ref(target, mods).map_err(|e| e.to_string())?;
    let b = explicit.attributes().mods(mods.clone());
    out.push((format!("{what}: attributes().mods().build()"), b.build().dump()));
    out.push((format!("{what}: attributes().mods().hit_windows()"), b.hit_windows().dump()));
    let b2 = explicit.attributes().difficulty(d);
    out.push((format!("{what}: attributes().difficulty().build()"), b2.build().dump()));
    Ok(out)
}

fn compare(base: &[(String, crate::canon::Dump)], other: &[(String, crate::canon::Dump)], info: &mut CaseInfo) -> Result<(), String> {
    for ((na, a), (nb, b)) in base.iter().zip(other) {
        info.comparisons += 1;
        if let Some(diff) = a.diff(b) {
            return Err(format!("[{na}] vs [{nb}]: {diff}"));
        }
    }
    Ok(())
}

fn case_repr(t: &mut Tape, info: &mut CaseInfo) -> Result<(), String> {
    let spec = gen_map(t, &MapProfile::small(ALL_MODES, 30));
    let target = pick_target(t, spec.mode);
    let mut bits = gen_mod_bits(t, true);
    // never the lone Nightcore bit (not a mod combination): NC is always sent as 576
    if bits & 512 != 0 {
        bits |= 64;
    }
    let score = gen_score_spec(t, spec.objects.len() as u32);
    // the other settings (score origin, clock rate, overrides, prefix) are the same for every representation
    let mut others = crate::gen::diff::gen_diff(t, &crate::gen::diff::DiffProfile::realistic().passed(spec.objects.len() as u32), target);
    others.mods = ModsSpec::nomod();
    let with_others = |mods: &GameMods| -> Difficulty {
        let mut o = others.clone();
        o.mods = ModsSpec::nomod();
        o.build(target).mods(mods.clone())
    };
    let map = spec.decode();
    map_labels(&spec, info);
    info.label(format!("target={target:?}"));
    info.label_if(others.lazer == Some(false), "stable-origin");
    let incompatible = (bits & HR != 0 && bits & EZ != 0) || (bits & DT != 0 && bits & HT != 0);
    info.label_if(incompatible, "incompatible-selection");
    if info.want_sample {
        info.sample = Some(json!({"map": spec.sample(), "target": mode_name(target), "bits": bits, "acronyms": GameModsIntermode::from_bits(bits).to_string(), "other_settings": others.describe(), "score": score.describe()}));
    }
    let mut base: Option<Vec<(String, crate::canon::Dump)>> = None;
    let mut nomod_differs = false;
    for repr in ALL_REPRS {
        let ms = ModsSpec { bits, repr, extras: Vec::new() };
        if repr == ModRepr::Lazer && ms.lazer(target).is_none() {
            info.label("lazer-leg-skipped(mode lacks a mod)");
            continue;
        }
        let mods = ms.build(target);
        let d = with_others(&mods);
        let res = all_results(&format!("{repr:?}"), &d, &map, target, &score, &mods)?;
        match &base {
            None => {
                let nm = all_results("NoMod", &with_others(&GameMods::default()), &map, target, &score, &GameMods::default())?;
                nomod_differs = nm.iter().zip(&res).any(|(a, b)| a.1.diff(&b.1).is_some());
                base = Some(res);
            }
            Some(b) => compare(b, &res, info)?,
        }
    }
    // the same set plus lazer-only mods without settings (Classic, HoldOff / Invert for mania, Blinds, ...): no
    // legacy bits exist for those, but the owned intermode, the borrowed intermode and the lazer representation
    // (default settings) must still agree with each other
    if t.chance(1, 2) {
        let mut extras = Vec::new();
        if t.chance(1, 2) {
            extras.push(LazerExtra::Classic);
        }
        if target == GameMode::Mania {
            if t.chance(1, 3) {
                extras.push(LazerExtra::HoldOff);
            }
            if t.chance(1, 3) {
                extras.push(LazerExtra::Invert);
            }
        }
        if t.chance(1, 2) {
            extras.push(LazerExtra::Acronym(*t.pick(&crate::gen::diff::LAZER_ACRONYMS)));
        }
        if !extras.is_empty() {
            let mut first: Option<Vec<(String, crate::canon::Dump)>> = None;
            for repr in [ModRepr::Intermode, ModRepr::IntermodeRef, ModRepr::Lazer] {
                let ms = ModsSpec { bits, repr, extras: extras.clone() };
                if repr == ModRepr::Lazer && ms.lazer(target).is_none() {
                    continue;
                }
                let mods = ms.build(target);
                let res = all_results(&format!("{repr:?} + {extras:?}"), &with_others(&mods), &map, target, &score, &mods)?;
                match &first {
                    None => first = Some(res),
                    Some(b) => compare(b, &res, info)?,
                }
            }
            info.label("lazer-only-mods-leg");
        }
    }
    // the From<&GameModsIntermode> fast path and bits round trip
    let inter = GameModsIntermode::from_bits(bits);
    if let Some(legacy_bits) = inter.checked_bits() {
        if GameModsLegacy::from_bits(legacy_bits) != GameModsLegacy::from_bits(bits) {
            return Err(format!("intermode.checked_bits()={legacy_bits} loses mods of {bits}"));
        }
    }
    info.nontrivial = bits != 0 && nomod_differs;
    info.set_key(&format!("{spec:?}{target:?}{bits}{score:?}"));
    Ok(())
}

fn case_rate_and_da(t: &mut Tape, info: &mut CaseInfo) -> Result<(), String> {
    let spec = gen_map(t, &MapProfile::small(ALL_MODES, 30));
    let target = pick_target(t, spec.mode);
    let score = gen_score_spec(t, spec.objects.len() as u32);
    let map = spec.decode();
    map_labels(&spec, info);
    info.label(format!("target={target:?}"));
    // a base selection without rate mods
    let base_bits = gen_mod_bits(t, true) & !(DT | HT | 512);
    let which = t.below(5);
    let (what, lazer_spec, legacy_d): (String, ModsSpec, Difficulty) = match which {
        0 | 1 => {
            // DT / NC with speed change r
            let mut r = match t.weighted(&[8, 1]) {
                0 => (t.range(101, 200) as f64) / 100.0,
                // rates that coincide with a default (no mod: 1.0, DT/NC: 1.5)
                _ => *t.pick(&[1.5, 1.0]),
            };
            let rate_bits = if which == 0 { DT } else { NC };
            // a quarter of these selections also contains HalfTime (default speed): the speed-up mod takes
            // precedence, as for legacy mods, whatever its speed change is (drawn from 0.5..2 here)
            let with_ht = t.chance(1, 4);
            if with_ht {
                r = (t.range(50, 200) as f64) / 100.0;
            }
            let ms = if with_ht {
                ModsSpec { bits: base_bits | rate_bits | HT, repr: ModRepr::Lazer, extras: vec![LazerExtra::RateOf(if which == 0 { "DT" } else { "NC" }, r)] }
            } else {
                ModsSpec { bits: base_bits | rate_bits, repr: ModRepr::Lazer, extras: vec![LazerExtra::Rate(r)] }
            };
            // the two explicit setters in either order
            let legacy_bits = base_bits | rate_bits | if with_ht { HT } else { 0 };
            let legacy = if t.coin() { Difficulty::new().mods(legacy_bits).clock_rate(r) } else { Difficulty::new().clock_rate(r).mods(legacy_bits) };
            (format!("{}(speed_change={r}){}", if which == 0 { "DT" } else { "NC" }, if with_ht { "+HT" } else { "" }), ms, legacy)
        }
        2 | 3 => {
            let r = match t.weighted(&[8, 1]) {
                0 => (t.range(50, 99) as f64) / 100.0,
                _ => *t.pick(&[0.75, 1.0]),
            };
            // Daycore has no legacy bit: the legacy side expresses it as HT + clock_rate(r)
            // (clock rate is the only thing either mod contributes to the calculation)
            if which == 2 {
                let ms = ModsSpec { bits: base_bits | HT, repr: ModRepr::Lazer, extras: vec![LazerExtra::Rate(r)] };
                let legacy = if t.coin() { Difficulty::new().mods(base_bits | HT).clock_rate(r) } else { Difficulty::new().clock_rate(r).mods(base_bits | HT) };
                (format!("HT(speed_change={r})"), ms, legacy)
            } else {
                let default_speed = t.chance(1, 3);
                let ms = ModsSpec { bits: base_bits, repr: ModRepr::Lazer, extras: vec![LazerExtra::Daycore(if default_speed { None } else { Some(r) })] };
                let legacy = Difficulty::new().mods(base_bits | HT).clock_rate(if default_speed { 0.75 } else { r });
                (format!("DC(speed_change={})", if default_speed { "default".to_string() } else { r.to_string() }), ms, legacy)
            }
        }
        _ => {
            // DifficultyAdjust: one or more values on the f32 grid
            let v = |t: &mut Tape| if t.coin() { Some(f64::from((t.range(0, 44) as f32) * 0.25)) } else { None };
            let (ar, cs, hp, od) = (v(t), v(t), v(t), v(t));
            let ms = ModsSpec { bits: base_bits, repr: ModRepr::Lazer, extras: vec![LazerExtra::DifficultyAdjust(ar, cs, hp, od)] };
            let mut legacy = Difficulty::new().mods(base_bits);
            let has_ar_cs = matches!(target, GameMode::Osu | GameMode::Catch);
            if let (Some(x), true) = (ar, has_ar_cs) {
                legacy = legacy.ar(x as f32, false);
            }
            if let (Some(x), true) = (cs, has_ar_cs) {
                legacy = legacy.cs(x as f32, false);
            }
            if let Some(x) = hp {
                legacy = legacy.hp(x as f32, false);
            }
            if let Some(x) = od {
                legacy = legacy.od(x as f32, false);
            }
            (format!("DA(ar={ar:?},cs={cs:?},hp={hp:?},od={od:?})"), ms, legacy)
        }
    };
    if info.want_sample {
        info.sample = Some(json!({"map": spec.sample(), "target": mode_name(target), "base_bits": base_bits, "relation": what, "score": score.describe()}));
    }
    let Some(lazer_mods) = lazer_spec.lazer(target) else {
        info.label("skipped(mode lacks a mod)");
        return Ok(());
    };
    let _ = mods_mode(target);
    let lazer_mods = GameMods::from(lazer_mods);
    let lazer_d = Difficulty::new().mods(lazer_mods.clone());
    let legacy_mods = legacy_d.clone().inspect().mods;
    let a = all_results(&format!("lazer {what}"), &lazer_d, &map, target, &score, &lazer_mods)?;
    let b = all_results("legacy + explicit setter", &legacy_d, &map, target, &score, &legacy_mods)?;
    // the `performance(mods)`/`attributes().mods()` legs carry the explicit setters only through Difficulty;
    // compare the legs that receive the full settings on both sides: difficulty, strains, performance(difficulty), attributes().difficulty()
    for idx in [0usize, 1, 2, 3, 6] {
        info.comparisons += 1;
        if let Some(diff) = a[idx].1.diff(&b[idx].1) {
            return Err(format!("[{}] vs [{}]: {diff}", a[idx].0, b[idx].0));
        }
    }
    // a settings object that carried the lazer mods (and was used with them) and is then given other mods must
    // behave like a fresh one with those mods: nothing derived from the earlier mods may survive `mods(..)`
    {
        let plain_lazer = ModsSpec { bits: base_bits, repr: ModRepr::Lazer, extras: Vec::new() }.build(target);
        for (name, next) in [("the legacy mods", legacy_mods.clone()), ("lazer mods without settings", plain_lazer)] {
            let used = lazer_d.clone();
            let _ = calc_for_mode(&used, &map, target)?;
            let reused = used.mods(next.clone());
            let fresh = Difficulty::new().mods(next);
            let x = calc_for_mode(&reused, &map, target)?;
            let y = calc_for_mode(&fresh, &map, target)?;
            info.comparisons += 1;
            if let Some(diff) = x.dump().diff(&y.dump()) {
                return Err(format!("Difficulty with lazer {what}, used once, then given {name}, vs a fresh Difficulty with {name}: {diff}"));
            }
        }
    }
    info.label(if which < 4 { "rate" } else { "difficulty-adjust" });
    info.nontrivial = spec.objects.len() >= 2;
    info.set_key(&format!("{spec:?}{target:?}{base_bits}{what}{score:?}"));
    Ok(())
}

pub fn property() -> Property {
    Property {
        id: "C08",
        subchecks: vec![
            SubCheck {
                name: "mod-representations",
                rule: "G-MAP (all modes + converts, <=30 objects) x legacy-representable mod bits (subsets of NF EZ TD HD HR DT NC HT FL SO RX AP incl. a share of incompatible selections, NC always as 576, key mods 1K-9K) x the remaining settings (lazer flag unset/true/false, clock rate, overrides, hardrock_offsets, passed_objects; identical for every representation) x score spec. Oracle: difficulty, strains, performance (settings via Difficulty and via Performance::mods), BeatmapAttributesBuilder::mods(..).build()/hit_windows() are same-value-equal for u32, GameModsLegacy, GameModsIntermode, &GameModsIntermode and lazer intermode.try_with_mode(mode) (lazer leg skipped and labelled when the mode lacks a mod); in half of the cases additionally with lazer-only mods without settings (Classic, HoldOff/Invert, Blinds, ...) across the owned intermode, borrowed intermode and lazer representations. Non-trivial: mods != NoMod and some result differs from the NoMod result.",
                quick: 15_000,
                thorough: 100_000,
                tape_len: 1400,
                f: case_repr,
                direct: None,
            },
            SubCheck {
                name: "rate-and-difficulty-adjust",
                rule: "(the explicit side applies mods(..) and clock_rate(r) in either order; r also takes the default rates 1.0 / 1.5 / 0.75) same maps; lazer DT/NC/HT/DC (Daycore: default speed or r) with speed_change r (1.01..2.00 / 0.50..0.99 step 0.01) vs legacy rate mod + clock_rate(r); lazer DifficultyAdjust{ar,cs,hp,od} on the 0.25 grid in [0,11] vs Difficulty::ar/cs/hp/od(v,false) (fields the mode's DA mod has). Compared: difficulty, strains, performance, attributes().difficulty(&D).build(). Non-trivial: >=2 objects.",
                quick: 15_000,
                thorough: 100_000,
                tape_len: 1400,
                f: case_rate_and_da,
                direct: None,
            },
        ],
        assumptions: &[
            "NC is encoded as bits 576, never as the lone bit 512; lazer legs use try_with_mode and are skipped when the mode lacks a mod",
        ],
        enumerate: None,
    }
}
