//! C03 — gradual performance ≡ one-shot performance of the partial play.

use rosu_pp::{any::DifficultyAttributes, model::mode::GameMode, GradualDifficulty, GradualPerformance};
use serde_json::json;

use super::{
    common::{gen_map_case, perf_for_mode, skip_open_taiko, units},
    Property,
};
use crate::{
    canon::same,
    engine::{CaseInfo, SubCheck},
    gen::{
        diff::{mode_name, DiffProfile},
        map::{MapProfile, ALL_MODES},
        score::{gen_any_state, gen_consistent_state},
    },
    tape::Tape,
};

fn case(t: &mut Tape, info: &mut CaseInfo) -> Result<(), String> {
    let mut c = gen_map_case(t, info, &MapProfile::small(ALL_MODES, 40), &DiffProfile::realistic(), true);
    if skip_open_taiko(&c.map, &c.d, c.target, info)? {
        return Ok(());
    }
    // a quarter of the calculators is created from a Difficulty that already carries a passed_objects
    // value: whatever the calculator makes of it, each returned value must still equal the one-shot
    // calculation with passed_objects(i) for the i objects it reports
    if t.chance(1, 4) {
        c.dspec.passed = Some(t.range(0, c.spec.objects.len() as i64 + 2) as u32);
        c.d = c.dspec.build(c.target);
        info.label("preset-passed_objects");
    }
    let reference: Vec<DifficultyAttributes> =
        GradualDifficulty::new_with_mode(c.d.clone(), &c.map, c.target).map_err(|e| e.to_string())?.collect();
    let l = reference.len();
    let mut g = GradualPerformance::new_with_mode(c.d.clone(), &c.map, c.target).map_err(|e| format!("ctor: {e}"))?;
    let lazer_non_classic = c.dspec.lazer != Some(false)
        && !c.dspec.mods.has_classic(c.target);
    let n_steps = t.range(1, 12) as usize;
    let mut p = 0usize;
    let mut steps_ok = 0;
    let mut interesting_state = false;
    let mut positive_pp = false;
    let mut trace = Vec::new();
    for i in 0..n_steps {
        let op = t.weighted(&[6, 5, 1]);
        let k = match op {
            0 => 0usize,
            1 => t.range(1, 4) as usize,
            _ => usize::MAX,
        };
        let remaining = l - p;
        let new_p = p + k.saturating_add(1).min(remaining);
        let consistent = t.chance(2, 3) && new_p > 0;
        let state = if consistent {
            gen_consistent_state(t, &reference[new_p - 1], lazer_non_classic)
        } else {
            gen_any_state(t, l as u32)
        };
        trace.push(json!({"op": if op == 0 { "next".to_string() } else if op == 1 { format!("nth({k})") } else { "last".to_string() }, "state": format!("{state:?}"), "consistent": consistent}));
        let got = match op {
            0 => g.next(state.clone()),
            1 => g.nth(state.clone(), k),
            _ => g.last(state.clone()),
        };
        let at = format!("step#{i} {} (cursor {p}/{l})", trace.last().unwrap()["op"]);
        match got {
            None => {
                if remaining != 0 {
                    return Err(format!("{at}: None although {remaining} remain"));
                }
            }
            Some(attrs) => {
                if remaining == 0 {
                    return Err(format!("{at}: Some although nothing remained"));
                }
                p = new_p;
                // the number of objects the *returned* difficulty attributes report
                let covered = units(&attrs.difficulty_attributes());
                let expected = perf_for_mode(&c.map, c.target)
                    .difficulty(c.d.clone())
                    .passed_objects(covered)
                    .state(state.clone())
                    .calculate();
                info.comparisons += 1;
                same(&format!("{at}: gradual performance vs one-shot passed_objects({covered})"), &attrs, &expected)?;
                steps_ok += 1;
                if attrs.pp() > 0.0 {
                    positive_pp = true;
                }
                if !consistent || state.n100 + state.n50 + state.misses + state.n_katu > 0 {
                    interesting_state = true;
                }
            }
        }
    }
    if info.want_sample {
        info.sample = Some(json!({"map": c.spec.sample(), "target": mode_name(c.target), "difficulty": c.dspec.describe(), "walk": trace}));
    }
    info.label_if(c.dspec.lazer == Some(false), "stable-origin");
    info.label_if(!lazer_non_classic, "classic-or-stable");
    info.nontrivial = steps_ok >= 2 && interesting_state && positive_pp;
    info.set_key(&format!("{:?}{:?}{:?}{trace:?}", c.spec, c.dspec, c.target));
    let _ = GameMode::Osu;
    Ok(())
}

pub fn property() -> Property {
    Property {
        id: "C03",
        subchecks: vec![SubCheck {
            name: "gradual-vs-oneshot-performance",
            rule: "G-MAP (all modes + converts, <=40 objects) x G-DIFF (mods in all representations incl. lazer Classic, lazer flag unset/true/false, clock rates, overrides) x a preset passed_objects on the calculator's Difficulty in a quarter of the cases x walk of 1-12 steps mixing next, nth(k<=4), last x per-step score state (2/3 consistent with the prefix reached, 1/3 arbitrary counts up to 2N). Oracle: every Some(attrs) is same-value-equal (pp, all components, effective miss count, deviation, embedded difficulty) to ModePerformance::new(&map).difficulty(D).passed_objects(i).state(s).calculate() where i is the object count the returned difficulty reports; None iff nothing remained. Non-trivial: >=2 successful steps, a state with non-300 judgements or inconsistent with the prefix, pp>0 at some step.",
            quick: 60_000,
            thorough: 300_000,
            tape_len: 1500,
            f: case,
            direct: None,
        }],
        assumptions: &["inputs in the open taiko gradual classes (known_findings.json) are steered away by construction and counted as excluded_known"],
        enumerate: None,
    }
}
