//! C01 — calculations are deterministic, pure functions of their inputs.

use std::collections::HashMap;

use rosu_pp::{
    model::{control_point::TimingPoint, mode::GameMode},
    Beatmap, GradualDifficulty, GradualPerformance,
};
use serde_json::{json, Value};

use super::{
    common::{calc_for_mode, in_open_taiko_class, perf_for_mode, strains_for_mode},
    Property,
};
use crate::{
    canon::Canon,
    engine::{fnv, CaseInfo, SubCheck},
    gen::{
        diff::{gen_diff, mode_of, DiffProfile, DiffSpec},
        map::{gen_map, MapProfile, MapSpec, TimingLine, ALL_MODES, OSU_ONLY},
        score::{gen_any_state, gen_score_spec, ScoreSpec},
    },
    tape::Tape,
};

#[derive(Clone, Debug)]
enum Op {
    Decode(usize),
    Bpm(usize),
    Convert(usize, u8, usize, u8),
    Diff(usize, u8, usize),
    Strains(usize, u8, usize),
    Perf(usize, u8, usize, usize),
    GradualDiff(usize, u8, usize),
    GradualPerf(usize, u8, usize),
    AttrBuilder(usize, usize),
}

/// A map built so that two distinct beat lengths accumulate exactly the same duration
/// (the tie `Beatmap::bpm` has to break) and with equal start times.
pub fn tie_heavy(t: &mut Tape) -> MapSpec {
    let mut spec = gen_map(t, &MapProfile::small(OSU_ONLY, 12));
    let span = (t.range(1, 40) * 1000) as f64;
    let n_lens = t.range(2, 4) as usize;
    let lens = [500.0, 250.0, 333.0, 400.0];
    spec.timing = (0..n_lens)
        .map(|i| TimingLine { time: span * i as f64, beat_len: lens[(i + t.below(2) as usize) % 4], uninherited: true, kiai: false })
        .collect();
    // make all beat lengths distinct
    for i in 0..n_lens {
        spec.timing[i].beat_len = lens[i];
    }
    // the last object ends exactly n_lens spans after 0: every beat length lasts `span`
    let end = span * n_lens as f64;
    if spec.objects.is_empty() {
        spec.objects.push(crate::gen::map::ObjSpec { x: 256, y: 192, time: 0.0, kind: crate::gen::map::ObjKind::Circle, sound: 0, custom_sample: false });
    }
    let n = spec.objects.len();
    for (i, o) in spec.objects.iter_mut().enumerate() {
        o.time = (end * i as f64 / n as f64).floor();
        if let crate::gen::map::ObjKind::Spinner { end: e } | crate::gen::map::ObjKind::Hold { end: e } = &mut o.kind {
            *e = o.time + 100.0;
        }
    }
    let last = spec.objects.last_mut().unwrap();
    last.kind = crate::gen::map::ObjKind::Circle;
    last.time = end;
    // a sixth: every object at or before 0 ms with the first timing point before 0 and the second at exactly 0
    // (stable forces the first one to start at 0): every beat length accumulates a duration of exactly 0 and two
    // of them also start at the same effective time
    if t.chance(1, 6) {
        let back = (t.range(1, 50) * 10) as f64;
        spec.timing[0].time = -back;
        spec.timing[1].time = 0.0;
        let n = spec.objects.len();
        for (i, o) in spec.objects.iter_mut().enumerate() {
            o.time = if t.coin() { 0.0 } else { -((n - i) as f64) };
            o.kind = crate::gen::map::ObjKind::Circle;
        }
        spec.objects.sort_by(|a, b| a.time.total_cmp(&b.time));
        return spec;
    }
    // a quarter of these maps is a *near*-tie at microscopic scale instead: the accumulated durations of
    // neighbouring beat lengths differ by less than f64::EPSILON while the extremes differ by more, so a
    // comparison that is not a total order would depend on the order in which the durations are visited
    if t.chance(1, 4) {
        let a = t.range(1, 9) as f64;
        let b = t.range(1, 2) as f64;
        // half of them at the microscopic scale; the other half puts the chain on top of equal one-second
        // durations at any scale from 1e-15 ms to hundreds of ms (mantissa 1/2/3/5/7), so a comparison with a
        // tolerance - whatever its threshold - meets neighbours inside and extremes outside of it
        let (base, scale) = if t.coin() { (0.0, 1e-16) } else { (1000.0, *t.pick(&[1.0, 2.0, 3.0, 5.0, 7.0]) * 10f64.powi(t.range(0, 17) as i32 - 15)) };
        let mut at = 0.0;
        for (i, tl) in spec.timing.iter_mut().enumerate() {
            tl.time = at;
            at += base + (a + b * i as f64) * scale;
        }
        for o in spec.objects.iter_mut() {
            o.time = 0.0;
            o.kind = crate::gen::map::ObjKind::Circle;
        }
        spec.objects.last_mut().unwrap().time = at;
    }
    spec
}

struct World {
    specs: Vec<MapSpec>,
    texts: Vec<String>,
    maps: Vec<Beatmap>,
    dspecs: Vec<DiffSpec>,
    scores: Vec<ScoreSpec>,
    states: Vec<rosu_pp::any::ScoreState>,
    ops: Vec<Op>,
}

fn gen_world(t: &mut Tape) -> World {
    let n_maps = t.range(2, 3) as usize;
    let mut specs = vec![tie_heavy(t)];
    for _ in 1..n_maps {
        specs.push(gen_map(t, &MapProfile::small(ALL_MODES, 25)));
    }
    // a fifth of the pools: the second map is an osu! map with 3-5 breaks of fractional length whose drain
    // time (last - first - sum of the breaks, which the mania conversion truncates to whole seconds) lies
    // exactly on a second boundary when the breaks are summed in file order: any other summation order
    // (differing by an ulp) moves it across the boundary
    if t.chance(1, 5) {
        let mut spec = gen_map(t, &MapProfile::small(OSU_ONLY, 40));
        let n_breaks = t.range(3, 5) as usize;
        let mut at = 100.0;
        spec.breaks = (0..n_breaks)
            .map(|_| {
                let start = at + (t.range(1, 9) as f64) / 10.0;
                let end = start + t.range(200, 900) as f64 + (t.range(1, 9) as f64) / 10.0;
                at = end + 50.0;
                (start, end)
            })
            .collect();
        let sum: f64 = spec.breaks.iter().map(|(a, b)| b - a).sum();
        let secs = t.range(1, 4) as f64;
        let last = secs * 1000.0 + sum;
        let n = spec.objects.len().max(2);
        while spec.objects.len() < 2 {
            spec.objects.push(crate::gen::map::ObjSpec { x: 256, y: 192, time: 0.0, kind: crate::gen::map::ObjKind::Circle, sound: 0, custom_sample: false });
        }
        for (i, o) in spec.objects.iter_mut().enumerate() {
            o.time = (last * i as f64 / n as f64).floor();
            if let crate::gen::map::ObjKind::Spinner { end: e } | crate::gen::map::ObjKind::Hold { end: e } = &mut o.kind {
                *e = o.time + 10.0;
            }
        }
        spec.objects[0].time = 0.0;
        let lo = spec.objects.last_mut().unwrap();
        lo.kind = crate::gen::map::ObjKind::Circle;
        lo.time = last;
        specs[1] = spec;
    }
    let mut texts: Vec<String> = specs.iter().map(MapSpec::render).collect();
    // a third of the pools contains a text whose last slider line is malformed after its first path
    // segment (the decoder skips the line): state left behind by a failed line must not leak into
    // later decodes of this or any other text
    if t.chance(1, 3) {
        let k = t.below_usize(n_maps);
        let good = "100,100,0,2,0,B|150:100|200:150,1,80\n";
        let bad = *t.pick(&["120,120,50,2,0,B|150:100|200:150|B|300:300|4x:1,1,80\n", "120,120,50,2,0,L|200:200|L|x:300,1,60\n", "120,120,50,2,0,P|130:140|180:90|B|7,2,90\n"]);
        if t.coin() {
            texts[k].push_str(good);
        }
        texts[k].push_str(bad);
    }
    let maps: Vec<Beatmap> = texts.iter().map(|x| Beatmap::from_bytes(x.as_bytes()).expect("decode")).collect();
    let dspecs: Vec<DiffSpec> = (0..3)
        .map(|_| {
            let m = mode_of(t.below(4) as u8);
            gen_diff(t, &DiffProfile::realistic().passed(10), m)
        })
        .collect();
    let scores: Vec<ScoreSpec> = (0..2).map(|_| gen_score_spec(t, 20)).collect();
    let states = (0..3).map(|_| gen_any_state(t, 20)).collect();
    let n_ops = t.range(6, 40) as usize;
    let ops = (0..n_ops)
        .map(|_| {
            let m = t.below_usize(n_maps);
            let mode = t.below(4) as u8;
            let d = t.below_usize(3);
            match t.weighted(&[2, 4, 3, 4, 2, 3, 2, 2, 1]) {
                0 => Op::Decode(m),
                1 => Op::Bpm(m),
                2 => Op::Convert(m, mode, d, t.below(3) as u8),
                3 => Op::Diff(m, mode, d),
                4 => Op::Strains(m, mode, d),
                5 => Op::Perf(m, mode, d, t.below_usize(2)),
                6 => Op::GradualDiff(m, mode, d),
                7 => Op::GradualPerf(m, mode, d),
                _ => Op::AttrBuilder(m, d),
            }
        })
        .collect();
    World { specs, texts, maps, dspecs, scores, states, ops }
}

fn target_for(map: &Beatmap, mode: u8) -> GameMode {
    if map.mode == GameMode::Osu {
        mode_of(mode)
    } else {
        map.mode
    }
}

/// Execute one op and return its canonical result line.
fn exec(w: &World, op: &Op) -> Result<String, String> {
    Ok(match op {
        Op::Decode(m) => {
            let a = Beatmap::from_bytes(w.texts[*m].as_bytes()).map_err(|e| e.to_string())?;
            let b: Beatmap = w.texts[*m].parse().map_err(|e: std::io::Error| e.to_string())?;
            if a != b {
                return Err("from_bytes != from_str on the same text".into());
            }
            if a != w.maps[*m] {
                return Err("decoding the same text twice gives different maps".into());
            }
            format!("{:016x}", fnv(format!("{a:?}").as_bytes()))
        }
        Op::Bpm(m) => {
            let first = w.maps[*m].bpm();
            for i in 0..16 {
                let again = w.maps[*m].bpm();
                if again.to_bits() != first.to_bits() {
                    return Err(format!("bpm() returned {first} and then {again} (repetition {i}) on the same map"));
                }
            }
            // a fresh decode of the same text must agree as well
            let fresh = Beatmap::from_bytes(w.texts[*m].as_bytes()).map_err(|e| e.to_string())?.bpm();
            if fresh.to_bits() != first.to_bits() {
                return Err(format!("bpm() {first} vs {fresh} on a fresh decode of the same text"));
            }
            format!("{:016x}", first.to_bits())
        }
        Op::Convert(m, mode, d, kind) => {
            let map = &w.maps[*m];
            let target = mode_of(*mode);
            let mods = w.dspecs[*d].mods.build(target);
            let r = match kind {
                0 => map.clone().convert(target, &mods).map_err(|e| format!("{e:?}")),
                1 => map.convert_ref(target, &mods).map(std::borrow::Cow::into_owned).map_err(|e| format!("{e:?}")),
                _ => {
                    let mut c = map.clone();
                    c.convert_mut(target, &mods).map(|()| c).map_err(|e| format!("{e:?}"))
                }
            };
            match r {
                Ok(c) => format!("ok:{:016x}", fnv(format!("{c:?}").as_bytes())),
                Err(e) => format!("err:{e}"),
            }
        }
        Op::Diff(m, mode, d) => {
            let map = &w.maps[*m];
            let target = target_for(map, *mode);
            calc_for_mode(&w.dspecs[*d].build(target), map, target)?.dump().line()
        }
        Op::Strains(m, mode, d) => {
            let map = &w.maps[*m];
            let target = target_for(map, *mode);
            strains_for_mode(&w.dspecs[*d].build(target), map, target)?.dump().line()
        }
        Op::Perf(m, mode, d, s) => {
            let map = &w.maps[*m];
            let target = target_for(map, *mode);
            w.scores[*s].apply(perf_for_mode(map, target).difficulty(w.dspecs[*d].build(target))).calculate().dump().line()
        }
        Op::GradualDiff(m, mode, d) => {
            let map = &w.maps[*m];
            let target = target_for(map, *mode);
            let mut ds = w.dspecs[*d].clone();
            ds.passed = None;
            if skip_gradual(map, target, &ds) {
                return Ok("skipped".into());
            }
            let v: Vec<_> = GradualDifficulty::new_with_mode(ds.build(target), map, target).map_err(|e| e.to_string())?.collect();
            v.dump().line()
        }
        Op::GradualPerf(m, mode, d) => {
            let map = &w.maps[*m];
            let target = target_for(map, *mode);
            let mut ds = w.dspecs[*d].clone();
            ds.passed = None;
            if skip_gradual(map, target, &ds) {
                return Ok("skipped".into());
            }
            let mut g = GradualPerformance::new_with_mode(ds.build(target), map, target).map_err(|e| e.to_string())?;
            let mut out = String::new();
            for (i, s) in w.states.iter().enumerate() {
                out.push_str(&g.nth(s.clone(), i).dump().line());
                out.push('|');
            }
            out
        }
        Op::AttrBuilder(m, d) => {
            let map = &w.maps[*m];
            let b = map.attributes().difficulty(&w.dspecs[*d].build(map.mode));
            format!("{}|{}", b.build().dump().line(), b.hit_windows().dump().line())
        }
    })
}

fn skip_gradual(map: &Beatmap, target: GameMode, ds: &DiffSpec) -> bool {
    if target != GameMode::Taiko {
        return false;
    }
    match map.convert_ref(GameMode::Taiko, &ds.mods.build(target)) {
        Ok(c) => in_open_taiko_class(&c.hit_objects),
        Err(_) => true,
    }
}

/// Run the whole history; returns (digest of all results, #recurrences checked, interleaved recurrence seen).
fn run_history(w: &World, info: &mut CaseInfo) -> Result<(u64, u64, bool), String> {
    let snapshots: Vec<Beatmap> = w.maps.clone();
    let mut seen: HashMap<String, (String, usize, usize)> = HashMap::new();
    let mut digest = 0u64;
    let mut recurrences = 0u64;
    let mut interleaved = false;
    for (i, op) in w.ops.iter().enumerate() {
        let key = format!("{op:?}");
        let line = exec(w, op).map_err(|e| format!("op#{i} {key}: {e}"))?;
        let map_idx = match op {
            Op::Decode(m) | Op::Bpm(m) | Op::Convert(m, ..) | Op::Diff(m, ..) | Op::Strains(m, ..) | Op::Perf(m, ..) | Op::GradualDiff(m, ..) | Op::GradualPerf(m, ..) | Op::AttrBuilder(m, _) => *m,
        };
        // purity: no call may modify a map it was given by reference
        for (j, (m, s)) in w.maps.iter().zip(&snapshots).enumerate() {
            if m != s {
                return Err(format!("op#{i} {key}: map {j} was modified"));
            }
        }
        if let Some((first, at, _)) = seen.get(&key) {
            recurrences += 1;
            info.comparisons += 1;
            if *first != line {
                return Err(format!("op#{i} {key}: result differs from the first evaluation at op#{at}"));
            }
            // separated by an op on a different map?
            if w.ops[*at + 1..i].iter().any(|o| !format!("{o:?}").contains(&format!("({map_idx}"))) {
                interleaved = true;
            }
        } else {
            seen.insert(key.clone(), (line.clone(), i, map_idx));
        }
        digest = digest.rotate_left(13) ^ fnv(line.as_bytes());
    }
    Ok((digest, recurrences, interleaved))
}

fn world_sample(w: &World) -> Value {
    json!({"maps": w.specs.iter().map(MapSpec::sample).collect::<Vec<_>>(), "difficulties": w.dspecs.iter().map(DiffSpec::describe).collect::<Vec<_>>(), "ops": format!("{:?}", w.ops)})
}

fn case(t: &mut Tape, info: &mut CaseInfo) -> Result<(), String> {
    let w = gen_world(t);
    if info.want_sample {
        info.sample = Some(world_sample(&w));
    }
    let (_, recurrences, interleaved) = run_history(&w, info)?;
    info.label_if(recurrences > 0, "has-recurrence");
    info.label_if(interleaved, "recurrence-across-other-map");
    let distinct_bl = |tp: &[TimingPoint]| tp.iter().map(|p| p.beat_len.to_bits()).collect::<std::collections::HashSet<_>>().len();
    info.nontrivial = interleaved && w.maps[0].hit_objects.len() >= 2 && distinct_bl(&w.maps[0].timing_points) >= 2;
    info.set_key(&format!("{:?}{:?}{:?}", w.specs, w.dspecs, w.ops));
    Ok(())
}

/// Explicit case: `{"osu": text}` — bpm() must be stable over 64 calls and a fresh decode,
/// and every calculation on the map repeatable.
fn direct(v: &Value) -> Result<(), String> {
    let text = v.get("osu").and_then(Value::as_str).ok_or("direct case lacks `osu`")?;
    let map = Beatmap::from_bytes(text.as_bytes()).map_err(|e| e.to_string())?;
    let first = map.bpm();
    for i in 0..64 {
        let again = if i % 2 == 0 { map.bpm() } else { Beatmap::from_bytes(text.as_bytes()).map_err(|e| e.to_string())?.bpm() };
        if again.to_bits() != first.to_bits() {
            return Err(format!("bpm() returned {first} and then {again} (repetition {i}) on the same map"));
        }
    }
    let d = rosu_pp::Difficulty::new();
    let a = d.calculate(&map).dump().line();
    let b = d.calculate(&map).dump().line();
    if a != b {
        return Err("difficulty differs between two evaluations".into());
    }
    Ok(())
}

/// Digest of the history decoded from a tape (used by the cross-process differential).
pub fn history_digest(tape: &[u32]) -> Result<u64, String> {
    let mut t = Tape::new(tape.to_vec());
    let w = gen_world(&mut t);
    run_history(&w, &mut CaseInfo::default()).map(|r| r.0)
}

pub fn property() -> Property {
    Property {
        id: "C01",
        subchecks: vec![SubCheck {
            name: "history-invariant",
            rule: "pool of 2-3 maps (map 0 always tie-heavy: >=2 distinct beat lengths with exactly equal accumulated duration, equal start times; a quarter instead near-tie chains (neighbouring durations closer than the extremes) at 1e-16 ms scale or, on top of equal one-second durations, at any scale from 1e-15 ms to hundreds of ms, a sixth all-zero durations with two beat lengths starting at the same effective time) ; in a fifth of the pools the second map has 3-5 fractional breaks and a drain time exactly on a whole-second boundary) x 3 Difficulty specs x 2 score specs x history of 6-40 ops over the public surface (decode via bytes+str (a third of the pools contains a text with a malformed trailing slider line), bpm x16 + fresh decode, convert by value/ref/mut, difficulty, strains, performance, gradual difficulty drain, gradual performance walk, attribute builder). Invariant: whenever an op key recurs (immediately or after ops on other maps) its canonical result is bit-identical to the first; no op modifies a map passed by reference (== against a snapshot after every op). Non-trivial: a recurrence separated by an op on another map, tie-heavy map has >=2 objects and >=2 beat lengths. The driver additionally runs the same seeded histories in two separate processes and compares digests (sub-check cross-process).",
            quick: 8000,
            thorough: 60_000,
            tape_len: 2600,
            f: case,
            direct: Some(direct),
        }],
        assumptions: &["within one process every HashMap::default() draws fresh RandomState keys, so repetition already varies hash seeds; ASLR/hash-key dependence stable within a process is covered by the two-process digest comparison"],
        enumerate: None,
    }
}
