//! C05 — no panic, abort or hang on any decodable, non-suspicious map with bounded slider work.
//! This module holds the domain gate and the "call everything" routine; isolation (watchdog,
//! exit status, memory limit) is owned by the driver through `bin/worker.rs`.

use rosu_pp::{
    any::{DifficultyAttributes, ScoreState},
    model::{hit_object::HitObjectKind, mode::GameMode},
    Beatmap, GradualDifficulty, GradualPerformance, Performance,
};

use super::common::{calc_for_mode, in_open_taiko_class, perf_for_mode, strains_for_mode, MODES};
use crate::{
    gen::{
        diff::{gen_diff, DiffProfile},
        map::{gen_map, MapProfile, ALL_MODES},
        score::{gen_any_state, gen_score_spec},
    },
    tape::Tape,
};

pub const MAX_OBJECTS: usize = 300;
pub const MAX_REPEATS: usize = 100;
pub const MAX_SLIDER_LEN: f64 = 20_000.0;
pub const MAX_SLIDER_WORK: f64 = 200_000.0;

/// Estimate of the nested-object work all sliders cause, from public fields and the documented
/// tick-distance formula: sum over sliders of spans * (1 + min(len, 100000) / tick_dist).
pub fn slider_work(map: &Beatmap) -> f64 {
    let mut work = 0.0;
    for h in &map.hit_objects {
        let HitObjectKind::Slider(s) = &h.kind else { continue };
        let sv = map
            .difficulty_points
            .iter()
            .rev()
            .find(|p| p.time <= h.start_time)
            .map_or(1.0, |p| p.slider_velocity);
        let len = s.expected_dist.unwrap_or_else(|| {
            // no explicit length: the path's own length, bounded by the control polygon
            s.control_points.windows(2).map(|w| f64::from((w[1].pos - w[0].pos).length())).sum()
        });
        // the tick distance of the mode with the densest nested objects (catch tiny droplets ~ tick/4.. use /8)
        let tick_dist = (100.0 * map.slider_multiplier * sv / map.slider_tick_rate).max(1e-3);
        work += (s.span_count() as f64) * (1.0 + 8.0 * len.min(100_000.0) / tick_dist);
    }
    work
}

/// Open finding: a gradual walk costs O(steps x strain sections) because every step clones and
/// re-aggregates all section peaks; with a very low clock rate on a long map this takes minutes.
/// Class predicate (decidable on the input): estimated sections x steps above the threshold.
pub const K_GRADUAL_COST: &str = "C05/gradual-steps-times-sections";
pub const GRADUAL_COST_LIMIT: f64 = 1e6;

pub fn gradual_cost(explicit: &Beatmap, clock_rate: f64, steps: u32) -> f64 {
    let Some(first) = explicit.hit_objects.first() else { return 0.0 };
    // the map's time span including the duration of its last/longest objects (a 97-repeat slider at
    // 1 BPM and SV 0.1 lasts 55 hours although it passes check_suspicion)
    let mut end = first.start_time;
    for h in &explicit.hit_objects {
        let dur = match &h.kind {
            HitObjectKind::Circle => 0.0,
            HitObjectKind::Spinner(s) => s.duration,
            HitObjectKind::Hold(s) => s.duration,
            HitObjectKind::Slider(s) => {
                let beat_len = explicit.timing_points.iter().rev().find(|p| p.time <= h.start_time).or(explicit.timing_points.first()).map_or(500.0, |p| p.beat_len);
                let sv = explicit.difficulty_points.iter().rev().find(|p| p.time <= h.start_time).map_or(1.0, |p| p.slider_velocity);
                let len = s.expected_dist.unwrap_or_else(|| s.control_points.windows(2).map(|w| f64::from((w[1].pos - w[0].pos).length())).sum());
                (s.span_count() as f64) * len / (100.0 * explicit.slider_multiplier * sv).max(1e-9) * beat_len
            }
        };
        end = end.max(h.start_time + dur.max(0.0));
    }
    let span = (end - first.start_time).abs() + 10_000.0;
    let sections = span / clock_rate.max(1e-6) / 400.0;
    sections * f64::from(steps.max(1))
}

/// The stated input domain of C05. `Err(reason)` = outside.
pub fn domain_gate(map: &Beatmap) -> Result<(), &'static str> {
    if map.check_suspicion().is_err() {
        return Err("suspicious");
    }
    if map.hit_objects.len() > MAX_OBJECTS {
        return Err("too-many-objects");
    }
    for h in &map.hit_objects {
        if let HitObjectKind::Slider(s) = &h.kind {
            if s.repeats > MAX_REPEATS {
                return Err("slider-repeats>100");
            }
            if s.expected_dist.is_some_and(|d| d > MAX_SLIDER_LEN) {
                return Err("slider-length>20000");
            }
        }
    }
    if slider_work(map) > MAX_SLIDER_WORK {
        return Err("slider-work>2e5");
    }
    Ok(())
}

/// Generate the input text for case of a domain.
pub fn gen_input(t: &mut Tape, adversarial: bool) -> (Vec<u8>, &'static str) {
    if adversarial {
        match t.weighted(&[6, 3, 2]) {
            0 => (gen_map(t, &MapProfile::adversarial(ALL_MODES, 120)).render().into_bytes(), "input:adversarial-spec"),
            2 if !super::c06::fixtures().is_empty() => {
                // a real ranked map (first 80 objects) with its mode line rewritten and a few numeric tokens
                // of its object / timing lines replaced by values at the parser limits
                let text = t.pick(super::c06::fixtures()).clone();
                let mode = t.below(4);
                let mut lines: Vec<String> = text
                    .lines()
                    .map(|l| if l.starts_with("Mode:") { format!("Mode: {mode}") } else { l.to_string() })
                    .collect();
                let first_obj = lines.iter().position(|l| l.starts_with("[TimingPoints]")).unwrap_or(0);
                for _ in 0..t.range(0, 4) {
                    let i = first_obj + t.below_usize(lines.len() - first_obj);
                    let mut fields: Vec<String> = lines[i].split(',').map(str::to_string).collect();
                    if fields.len() < 3 {
                        continue;
                    }
                    let f = t.below_usize(fields.len().min(8));
                    fields[f] = (*t.pick(&["0", "1", "-1", "512", "2147483647", "-2147483648", "131072", "16777216", "9000", "100", "0.001", "1e9", "60000", "6"])).to_string();
                    lines[i] = fields.join(",");
                }
                (lines.join("\n").into_bytes(), "input:mutated-fixture")
            }
            _ => {
                // a rendered spec with token-level corruption (numbers at the parser limits)
                let text = gen_map(t, &MapProfile::adversarial(ALL_MODES, 60)).render();
                let mut lines: Vec<String> = text.lines().map(str::to_string).collect();
                for _ in 0..t.range(1, 5) {
                    let i = t.below_usize(lines.len());
                    let mut fields: Vec<String> = lines[i].split(',').map(str::to_string).collect();
                    let f = t.below_usize(fields.len());
                    fields[f] = (*t.pick(&["2147483647", "-2147483648", "131072", "-131072", "16777216", "16777217", "9000", "1e9", "0", "-1", "0.0001", "1e-300", "100000"])).to_string();
                    lines[i] = fields.join(",");
                }
                (lines.join("\n").into_bytes(), "input:adversarial-tokens")
            }
        }
    } else {
        let mut spec = gen_map(t, &MapProfile::realistic(ALL_MODES, 150));
        // ranges the editor can produce
        for v in [&mut spec.cs, &mut spec.od, &mut spec.hp] {
            *v = v.clamp(0.0, 10.0);
        }
        if spec.mode == 3 {
            spec.cs = spec.cs.clamp(1.0, 10.0);
        }
        if let Some(ar) = spec.ar.as_mut() {
            *ar = ar.clamp(0.0, 10.0);
        }
        (spec.render().into_bytes(), "input:realistic-spec")
    }
}

fn walk_gradual_difficulty(mut g: GradualDifficulty, t: &mut Tape) {
    let announced = g.len();
    let cap = announced * 2 + 64;
    let mut n = 0usize;
    loop {
        let _ = g.size_hint();
        let step = if t.chance(1, 3) { t.range(0, 5) as usize } else { 0 };
        let r = if step == 0 { g.next() } else { g.nth(step) };
        n += 1;
        if r.is_none() || n > cap {
            break;
        }
    }
    // after exhaustion
    let _ = g.next();
    let _ = g.nth(3);
    let _ = g.len();
    let _ = g.size_hint();
}

fn walk_gradual_performance(mut g: GradualPerformance, t: &mut Tape, n_objects: u32) {
    let cap = g.len() * 2 + 64;
    let mut n = 0usize;
    loop {
        let _ = g.len();
        let state: ScoreState = gen_any_state(t, n_objects);
        let r = match t.below(4) {
            0 | 1 => g.next(state),
            2 => g.nth(state, t.range(0, 6) as usize),
            _ => {
                if t.chance(1, 4) {
                    g.last(state)
                } else {
                    g.next(state)
                }
            }
        };
        n += 1;
        if r.is_none() || n > cap {
            break;
        }
    }
    let _ = g.next(ScoreState::new());
    let _ = g.last(ScoreState::new());
    let _ = g.len();
}

/// Every public calculation on a map of the domain. Panics propagate to the caller.
pub fn exercise(map: &Beatmap, t: &mut Tape, realistic: bool, labels: &mut Vec<String>) {
    let _ = map.bpm();
    let _ = map.total_break_time();
    let dprof = if realistic { DiffProfile::realistic() } else { DiffProfile::wide() }.passed(map.hit_objects.len() as u32);
    let n = map.hit_objects.len() as u32;
    for target in MODES {
        let dspec = gen_diff(t, &dprof, target);
        let mods = dspec.mods.build(target);
        // conversion by value / ref / mut
        let by_value = map.clone().convert(target, &mods);
        let _ = map.convert_ref(target, &mods);
        let mut c = map.clone();
        let _ = c.convert_mut(target, &mods);
        let Ok(explicit) = by_value else { continue };
        labels.push(format!("calc:{target:?}"));
        if std::env::var_os("VERIF_TRACE").is_some() {
            eprintln!("TRACE target={target:?} n={} dspec={:?}", explicit.hit_objects.len(), dspec);
        }
        let d = dspec.build(target);
        let attrs = calc_for_mode(&d, map, target);
        let _ = strains_for_mode(&d, map, target);
        let _ = d.calculate(&explicit);
        // attribute builder
        let b = explicit.attributes().difficulty(&d);
        let _ = b.build();
        let _ = b.hit_windows();
        // gradual (preset passed_objects is not part of the gradual API's domain)
        let mut dg_spec = dspec.clone();
        dg_spec.passed = None;
        let dg = dg_spec.build(target);
        let skip_taiko_gradual = target == GameMode::Taiko && in_open_taiko_class(&explicit.hit_objects);
        let steps = calc_for_mode(&dg, map, target).as_ref().map_or(n, super::common::units);
        let too_costly = crate::known::is_open(K_GRADUAL_COST)
            && gradual_cost(&explicit, explicit.attributes().difficulty(&dg).build().clock_rate, steps) > GRADUAL_COST_LIMIT;
        if skip_taiko_gradual {
            labels.push("gradual-skipped:open-taiko-class".into());
        } else if too_costly {
            labels.push("gradual-skipped:open-steps-x-sections-class".into());
        } else {
            let trace = std::env::var_os("VERIF_TRACE").is_some();
            let t0 = std::time::Instant::now();
            if let Ok(g) = GradualDifficulty::new_with_mode(dg.clone(), map, target) {
                if trace {
                    eprintln!("TRACE gradual difficulty len={}", g.len());
                }
                walk_gradual_difficulty(g, t);
            }
            if trace {
                eprintln!("TRACE gradual difficulty walk took {:?}", t0.elapsed());
            }
            if let Ok(g) = GradualPerformance::new_with_mode(dg.clone(), map, target) {
                walk_gradual_performance(g, t, n);
            }
            if trace {
                eprintln!("TRACE gradual performance walk done at {:?}", t0.elapsed());
            }
        }
        // performance with builder specs and explicit states
        for _ in 0..2 {
            let score = gen_score_spec(t, n);
            let _ = score.apply(perf_for_mode(map, target).difficulty(d.clone())).calculate();
        }
        let state = gen_any_state(t, n);
        let _ = perf_for_mode(map, target).difficulty(d.clone()).state(state.clone()).calculate();
        if let Ok(a) = attrs {
            let mut p = Performance::new(a.clone()).difficulty(d.clone()).state(state);
            let _ = p.generate_state();
            let _ = p.calculate();
            if let DifficultyAttributes::Osu(o) = &a {
                let _ = o.od();
            }
        }
    }
}

/// Entry point for the coverage-guided fuzz target: the settings tape is derived
/// deterministically from the input bytes, so one input is one reproducible case.
pub fn fuzz_one(data: &[u8]) {
    let Ok(map) = Beatmap::from_bytes(data) else { return };
    if domain_gate(&map).is_err() {
        return;
    }
    let mut h = crate::engine::fnv(data);
    let tape: Vec<u32> = (0..2000)
        .map(|_| {
            h ^= h << 13;
            h ^= h >> 7;
            h ^= h << 17;
            (h >> 16) as u32
        })
        .collect();
    let mut t = Tape::new(tape);
    let mut labels = Vec::new();
    exercise(&map, &mut t, false, &mut labels);
}
