//! C05 case runner. One case = f(domain, seed, index). Prints `BEGIN i` before and `END i ...`
//! after every case (flushed), so the driver — which owns the clock and the exit status — knows
//! which case a hang, abort, stack overflow or OOM belongs to.
//!
//! worker --domain adv|real --seed S --shard K --nshards N --count TOTAL
//! worker --domain D --seed S --only I            run one case
//! worker --domain D --seed S --dump I --out F    write the case's replay file
//! worker --domain D --replay F                   run the case stored in a replay file (tape or osu text)

use std::io::Write;

use rosu_pp::Beatmap;
use rosu_verif::{
    engine::{guarded, install_panic_hook, seeded_tapes},
    props::c05::{domain_gate, exercise, gen_input},
    tape::Tape,
};
use serde_json::{json, Value};

const TAPE_LEN: usize = 6000;

fn tape_for(seed: u64, domain: &str, index: u64) -> Vec<u32> {
    let s = seed ^ rosu_verif::engine::fnv(format!("C05/{domain}/{index}").as_bytes());
    seeded_tapes(s, 1, TAPE_LEN).pop().unwrap()
}

/// Returns (status line, Option<panic message>)
fn run_tape(tape: &[u32], adversarial: bool) -> (String, Option<String>) {
    let mut t = Tape::new(tape.to_vec());
    let (bytes, input_label) = gen_input(&mut t, adversarial);
    run_bytes(&bytes, &mut t, adversarial, input_label)
}

fn run_bytes(bytes: &[u8], t: &mut Tape, adversarial: bool, input_label: &str) -> (String, Option<String>) {
    let decoded = guarded(|| Beatmap::from_bytes(bytes));
    let map = match decoded {
        Err(p) => return (format!("kept {input_label} decode"), Some(format!("decode: {p}"))),
        Ok(Err(_)) => return ("discard:io-error".into(), None),
        Ok(Ok(m)) => m,
    };
    match guarded(|| domain_gate(&map)) {
        Err(p) => return (format!("kept {input_label} gate"), Some(format!("check_suspicion: {p}"))),
        Ok(Err(reason)) => return (format!("discard:{reason}"), None),
        Ok(Ok(())) => {}
    }
    let mut labels = vec![input_label.to_string(), format!("mode{}", map.mode as u8)];
    let n = map.hit_objects.len();
    labels.push(match n {
        0..=2 => "n<3".into(),
        3..=20 => "n=3..20".into(),
        _ => "n>20".into(),
    });
    if map.hit_objects.iter().any(|h| h.is_slider()) {
        labels.push("has-slider".into());
    }
    if map.hit_objects.iter().any(|h| h.is_spinner()) {
        labels.push("has-spinner".into());
    }
    if map.hit_objects.iter().any(|h| h.start_time >= 16_777_216.0) {
        labels.push("time>=2^24".into());
    }
    if map.hit_objects.iter().any(|h| h.start_time < 0.0) {
        labels.push("negative-time".into());
    }
    if map.hit_objects.iter().any(|h| h.pos.x.abs() > 10_000.0 || h.pos.y.abs() > 10_000.0) {
        labels.push("coords>1e4".into());
    }
    let res = guarded(|| exercise(&map, t, !adversarial, &mut labels));
    labels.sort();
    labels.dedup();
    let status = format!("kept n={n} h={:016x} {}", rosu_verif::engine::fnv(bytes), labels.join(" "));
    (status, res.err())
}

fn main() {
    install_panic_hook();
    let args: Vec<String> = std::env::args().collect();
    let get = |k: &str| args.iter().position(|a| a == k).and_then(|i| args.get(i + 1)).cloned();
    let domain = get("--domain").unwrap_or_else(|| "adv".into());
    let adversarial = domain == "adv";
    let seed: u64 = get("--seed").and_then(|s| s.parse().ok()).or_else(|| std::env::var("VERIF_SEED").ok().and_then(|s| s.parse().ok())).unwrap_or(0);
    let out = std::io::stdout();

    if let Some(path) = get("--fuzz-input") {
        // one input of the fuzz_calc target, run the way the target runs it (settings derived from the bytes);
        // prints the wall-clock seconds so that the driver can judge a libFuzzer timeout / slow-unit artifact
        // on the release profile, alone
        let data = std::fs::read(&path).expect("read input");
        let t0 = std::time::Instant::now();
        let r = guarded(|| rosu_verif::props::c05::fuzz_one(&data));
        if let Err(p) = r {
            println!("PANIC 0 {p}");
        }
        println!("SECONDS {:.3}", t0.elapsed().as_secs_f64());
        println!("DONE");
        return;
    }
    if let Some(path) = get("--replay") {
        let v: Value = serde_json::from_str(&std::fs::read_to_string(&path).expect("read replay")).expect("json");
        let adversarial = v.get("domain").and_then(Value::as_str).unwrap_or(&domain) == "adv";
        println!("BEGIN 0");
        out.lock().flush().ok();
        let (status, panic) = if let (Some(text), Some(rate)) = (v.get("osu").and_then(Value::as_str), v.get("gradual_clock_rate").and_then(Value::as_f64)) {
            // explicit gradual walk at a given clock rate (witness form of the steps x sections finding)
            let r = guarded(|| {
                let map = Beatmap::from_bytes(text.as_bytes()).expect("decode");
                let d = rosu_pp::Difficulty::new().clock_rate(rate);
                let mode = rosu_verif::gen::diff::mode_from_name(v.get("gradual_mode").and_then(Value::as_str).unwrap_or("Osu"));
                let mode = if map.mode == rosu_pp::model::mode::GameMode::Osu { mode } else { map.mode };
                rosu_pp::GradualDifficulty::new_with_mode(d, &map, mode).expect("convertible").count()
            });
            (format!("kept gradual-walk {r:?}"), r.err())
        } else if let Some(text) = v.get("osu").and_then(Value::as_str) {
            // explicit text with default settings (zero tape)
            run_bytes(text.as_bytes(), &mut Tape::new(Vec::new()), adversarial, "input:explicit")
        } else {
            let tape: Vec<u32> = v.get("tape").and_then(Value::as_array).map(|a| a.iter().map(|x| x.as_u64().unwrap_or(0) as u32).collect()).unwrap_or_default();
            run_tape(&tape, adversarial)
        };
        if let Some(p) = panic {
            println!("PANIC 0 {p}");
        }
        println!("END 0 {status}");
        println!("DONE");
        return;
    }
    if let Some(i) = get("--dump").and_then(|s| s.parse::<u64>().ok()) {
        let tape = tape_for(seed, &domain, i);
        let mut t = Tape::new(tape.clone());
        let (bytes, label) = gen_input(&mut t, adversarial);
        let v = json!({"property": "C05", "subcheck": "worker", "domain": domain, "seed": seed, "index": i, "input_kind": label,
                       "input_text": String::from_utf8_lossy(&bytes), "tape": tape});
        let path = get("--out").unwrap_or_else(|| "c05-case.json".into());
        if let Some(parent) = std::path::Path::new(&path).parent() {
            let _ = std::fs::create_dir_all(parent);
        }
        std::fs::write(&path, serde_json::to_string_pretty(&v).unwrap()).expect("write dump");
        return;
    }
    let indices: Vec<u64> = if let Some(i) = get("--only").and_then(|s| s.parse().ok()) {
        vec![i]
    } else {
        let shard: u64 = get("--shard").and_then(|s| s.parse().ok()).unwrap_or(0);
        let nshards: u64 = get("--nshards").and_then(|s| s.parse().ok()).unwrap_or(1);
        let count: u64 = get("--count").and_then(|s| s.parse().ok()).unwrap_or(100);
        let start: u64 = get("--start").and_then(|s| s.parse().ok()).unwrap_or(0);
        (0..count).filter(|i| i % nshards == shard && *i >= start).collect()
    };
    for i in indices {
        println!("BEGIN {i}");
        out.lock().flush().ok();
        let tape = tape_for(seed, &domain, i);
        let (status, panic) = run_tape(&tape, adversarial);
        if let Some(p) = panic {
            println!("PANIC {i} {p}");
        }
        println!("END {i} {status}");
        out.lock().flush().ok();
    }
    println!("DONE");
}
