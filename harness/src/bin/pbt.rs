//! `pbt <Cxx> [--tier quick|thorough] [--seed N] [--out file] [--replay file] [--only subcheck] [--scale x]`
//!
//! Exit 0: property held on everything explored (KNOWN-FINDING lines allowed).
//! Exit 1: at least one `VIOLATION property=<id> replay=<path>` line printed.
//! Exit 2: usage / infrastructure problem.

use std::{collections::BTreeMap, path::PathBuf, process::ExitCode};

use rosu_verif::{
    engine::{self, run_case, run_subcheck, write_replay, Timer},
    known,
    props::{self, Property},
};
use serde_json::{json, Value};

struct Args {
    id: String,
    thorough: bool,
    seed: u64,
    out: Option<PathBuf>,
    replay: Option<PathBuf>,
    only: Option<String>,
    scale: f64,
    digest: Option<usize>,
    digest_tape: Option<PathBuf>,
    dump: Option<usize>,
}

fn parse_args() -> Result<Args, String> {
    let mut it = std::env::args().skip(1);
    let id = it.next().ok_or("missing property id")?;
    let mut a = Args {
        id,
        thorough: std::env::var("VERIF_TIER").is_ok_and(|t| t == "thorough"),
        seed: std::env::var("VERIF_SEED").ok().and_then(|s| s.parse().ok()).unwrap_or(0),
        out: None,
        replay: None,
        only: None,
        scale: 1.0,
        digest: None,
        digest_tape: None,
        dump: None,
    };
    while let Some(arg) = it.next() {
        match arg.as_str() {
            "--tier" => a.thorough = it.next().ok_or("--tier needs a value")? == "thorough",
            "--seed" => a.seed = it.next().and_then(|s| s.parse().ok()).ok_or("--seed needs an integer")?,
            "--out" => a.out = Some(it.next().ok_or("--out needs a path")?.into()),
            "--replay" => a.replay = Some(it.next().ok_or("--replay needs a path")?.into()),
            "--only" => a.only = Some(it.next().ok_or("--only needs a name")?),
            "--digest" => a.digest = Some(it.next().and_then(|s| s.parse().ok()).ok_or("--digest needs a count")?),
            "--digest-tape" => a.digest_tape = Some(it.next().ok_or("--digest-tape needs a path")?.into()),
            "--dump" => a.dump = Some(it.next().and_then(|s| s.parse().ok()).ok_or("--dump needs an index")?),
            "--scale" => a.scale = it.next().and_then(|s| s.parse().ok()).ok_or("--scale needs a number")?,
            other => return Err(format!("unknown argument {other}")),
        }
    }
    Ok(a)
}

/// Replay a saved case through the plain oracle function (no proptest involved).
/// Returns Ok(None) if it passes, Ok(Some(msg)) if it fails.
fn replay_file(prop: &Property, path: &std::path::Path) -> Result<Option<String>, String> {
    let text = std::fs::read_to_string(path).map_err(|e| format!("cannot read {}: {e}", path.display()))?;
    let v: Value = serde_json::from_str(&text).map_err(|e| format!("{}: {e}", path.display()))?;
    let sub_name = v.get("subcheck").and_then(Value::as_str).ok_or("replay file lacks `subcheck`")?;
    let tape: Vec<u32> = v
        .get("tape")
        .and_then(Value::as_array)
        .map(|a| a.iter().map(|x| x.as_u64().unwrap_or(0) as u32).collect())
        .unwrap_or_default();
    let sub = prop
        .subchecks
        .iter()
        .find(|s| s.name == sub_name)
        .ok_or_else(|| format!("unknown subcheck {sub_name} for {}", prop.id))?;
    // prefer the explicit case: it does not depend on the generator staying unchanged
    if let (Some(direct), Some(f)) = (v.get("direct").filter(|d| !d.is_null()), sub.direct) {
        let res = engine::guarded(|| f(direct));
        return Ok(match res {
            Ok(r) => r.err(),
            Err(p) => Some(p),
        });
    }
    if v.get("tape").is_none() {
        return Err(format!("{}: no usable `direct` case and no `tape`", path.display()));
    }
    let (res, _) = run_case(sub.f, &tape, false);
    Ok(res.err())
}

fn main() -> ExitCode {
    let args = match parse_args() {
        Ok(a) => a,
        Err(e) => {
            eprintln!("usage error: {e}");
            return ExitCode::from(2);
        }
    };
    engine::install_panic_hook();
    let Some(prop) = props::property(&args.id) else {
        eprintln!("unknown property {}", args.id);
        return ExitCode::from(2);
    };

    // C01 cross-process differential: print one digest per seeded history (the driver runs this
    // in two separate processes and compares the output)
    if args.id == "C01" && (args.digest.is_some() || args.digest_tape.is_some()) {
        const TAPE_LEN: usize = 2600;
        if let Some(path) = &args.digest_tape {
            let v: Value = match std::fs::read_to_string(path).map_err(|e| e.to_string()).and_then(|t| serde_json::from_str(&t).map_err(|e| e.to_string())) {
                Ok(v) => v,
                Err(e) => {
                    eprintln!("{e}");
                    return ExitCode::from(2);
                }
            };
            let tape: Vec<u32> = v.get("tape").and_then(Value::as_array).map(|a| a.iter().map(|x| x.as_u64().unwrap_or(0) as u32).collect()).unwrap_or_default();
            println!("0 {:?}", engine::guarded(|| props::c01::history_digest(&tape)));
            return ExitCode::SUCCESS;
        }
        let n = args.digest.unwrap();
        let tapes = engine::seeded_tapes(args.seed ^ 0xC01, n, TAPE_LEN);
        if let Some(i) = args.dump {
            let v = json!({"property": "C01", "subcheck": "cross-process", "seed": args.seed, "index": i, "tape": tapes[i],
                           "message": "the same seeded history produced different results in two separate processes"});
            let out = args.out.clone().unwrap_or_else(|| PathBuf::from("cross-process.json"));
            if let Some(parent) = out.parent() {
                let _ = std::fs::create_dir_all(parent);
            }
            let _ = std::fs::write(&out, serde_json::to_string_pretty(&v).unwrap());
            return ExitCode::SUCCESS;
        }
        for (i, tape) in tapes.iter().enumerate() {
            println!("{i} {:?}", engine::guarded(|| props::c01::history_digest(tape)));
        }
        return ExitCode::SUCCESS;
    }

    if let Some(path) = &args.replay {
        return match replay_file(&prop, path) {
            Ok(None) => {
                println!("replay {} passes", path.display());
                ExitCode::SUCCESS
            }
            Ok(Some(msg)) => {
                println!("replay fails: {msg}");
                println!("VIOLATION property={} replay={}", prop.id, path.display());
                ExitCode::from(1)
            }
            Err(e) => {
                eprintln!("{e}");
                ExitCode::from(2)
            }
        };
    }

    let timer = Timer::start();
    let mut violations = 0u64;
    let mut known_lines: Vec<String> = Vec::new();

    // ---- known findings / fixed regressions for this property
    for f in known::all().values().filter(|f| f.property == prop.id) {
        if !prop.subchecks.iter().any(|s| s.name == f.subcheck) {
            continue; // witness belongs to another engine (driver-level)
        }
        let mut reproduced = 0;
        for (w, expect) in &f.witnesses {
            let path = known::root().join(w);
            match replay_file(&prop, &path) {
                Ok(Some(msg)) => {
                    let listed = expect.as_ref().is_none_or(|e| msg.contains(e.as_str()));
                    if f.open && listed {
                        reproduced += 1;
                    } else {
                        // a fixed entry failing again, or an open one failing in a way that is not the listed one
                        println!("regression/unlisted symptom for {} ({w}): {msg}", f.key);
                        println!("VIOLATION property={} replay={}", prop.id, path.display());
                        violations += 1;
                    }
                }
                Ok(None) => {
                    if f.open {
                        println!("note: witness {w} of open finding {} no longer fails", f.key);
                    }
                }
                Err(e) => {
                    eprintln!("cannot replay witness of {}: {e}", f.key);
                    return ExitCode::from(2);
                }
            }
        }
        if f.open && reproduced > 0 {
            let line = format!("KNOWN-FINDING: property={} {} [{}; {reproduced} witness(es) reproduce]", prop.id, f.what, f.key);
            println!("{line}");
            known_lines.push(line);
        }
    }

    // ---- generated search
    let mut evaluations = 0u64;
    let mut distinct = 0u64;
    let mut comparisons = 0u64;
    let mut excluded_known = 0u64;
    let mut excluded_domain = 0u64;
    let mut samples: Vec<Value> = Vec::new();
    let mut classes: BTreeMap<String, u64> = BTreeMap::new();
    let mut rules = Vec::new();
    let mut per_sub = serde_json::Map::new();
    for sub in &prop.subchecks {
        if args.only.as_ref().is_some_and(|o| o != sub.name) {
            continue;
        }
        if (if args.thorough { sub.thorough } else { sub.quick }) == 0 {
            continue; // replay-only entry (its cases come from an enumeration stage)
        }
        let scaled = engine::SubCheck {
            name: sub.name,
            rule: sub.rule,
            quick: ((f64::from(sub.quick) * args.scale).ceil() as u32).max(1),
            thorough: ((f64::from(sub.thorough) * args.scale).ceil() as u32).max(1),
            tape_len: sub.tape_len,
            f: sub.f,
            direct: sub.direct,
        };
        let st = Timer::start();
        let (stats, failure) = run_subcheck(prop.id, &scaled, args.thorough, args.seed);
        evaluations += stats.evaluations;
        distinct += stats.distinct.len() as u64;
        comparisons += stats.comparisons;
        excluded_known += stats.excluded_known;
        excluded_domain += stats.excluded_domain;
        for (k, v) in &stats.classes {
            *classes.entry(format!("{}:{k}", sub.name)).or_default() += v;
        }
        for s in stats.samples.iter().take(2) {
            samples.push(json!({"subcheck": sub.name, "case": s}));
        }
        rules.push(format!("[{}] {}", sub.name, sub.rule));
        per_sub.insert(
            sub.name.to_string(),
            json!({"evaluations": stats.evaluations, "nontrivial": stats.nontrivial, "distinct_nontrivial": stats.distinct.len(),
                   "comparisons": stats.comparisons, "excluded_known": stats.excluded_known, "excluded_out_of_domain": stats.excluded_domain,
                   "wall_s": st.secs(), "failed": failure.is_some()}),
        );
        if let Some(mut fail) = failure {
            violations += 1;
            let dir = known::root().join("replays").join(prop.id);
            write_replay(&dir, prop.id, &mut fail, args.seed);
            println!("FAIL {}[{}]: {}", prop.id, fail.subcheck, fail.message);
            if let Some(c) = &fail.case {
                println!("  shrunk case: {c}");
            }
            println!(
                "VIOLATION property={} replay={}",
                prop.id,
                fail.replay_path.as_ref().map_or_else(|| "<unwritable>".to_string(), |p| p.display().to_string())
            );
        }
    }

    let mut exhaustive = false;
    if let Some(enumerate) = prop.enumerate {
        if args.only.is_none() {
            let st = Timer::start();
            let rep = enumerate(args.thorough);
            evaluations += rep.evaluations;
            distinct += rep.distinct_nontrivial;
            exhaustive = rep.exhaustive;
            rules.push(format!("[{}] {}", rep.name, rep.rule));
            for s in rep.samples.iter().take(3) {
                samples.push(json!({"subcheck": rep.name, "case": s}));
            }
            per_sub.insert(
                rep.name.to_string(),
                json!({"evaluations": rep.evaluations, "distinct_nontrivial": rep.distinct_nontrivial, "shapes_enumerated": rep.space_size,
                       "exhaustive": rep.exhaustive, "wall_s": st.secs(), "failed": rep.failure.is_some()}),
            );
            if let Some((message, direct)) = rep.failure {
                violations += 1;
                let mut fail = engine::Failure { subcheck: rep.name.to_string(), message, tape: Vec::new(), case: Some(direct.clone()), direct: Some(direct), replay_path: None };
                let dir = known::root().join("replays").join(prop.id);
                write_replay(&dir, prop.id, &mut fail, args.seed);
                println!("FAIL {}[{}]: {}", prop.id, fail.subcheck, fail.message);
                println!("VIOLATION property={} replay={}", prop.id, fail.replay_path.as_ref().map_or_else(|| "<unwritable>".to_string(), |p| p.display().to_string()));
            }
        }
    }

    let evidence = json!({
        "property_id": prop.id,
        "tier": if args.thorough { "thorough" } else { "quick" },
        "seed": args.seed,
        "level": "exploration",
        "coverage": {
            "evaluations": evaluations,
            "distinct_nontrivial": distinct,
            "rule": rules.join(" || "),
            "samples": samples,
            "classes": classes,
            "comparisons": comparisons,
            "excluded_known": excluded_known,
            "excluded_out_of_domain": excluded_domain,
            "subchecks": per_sub,
            "exhaustive": false,
            "exhaustive_stage_completed": exhaustive,
        },
        "assumptions": prop.assumptions,
        "known_findings": known_lines,
        "wall_s": timer.secs(),
        "violations": violations,
    });
    if let Some(out) = &args.out {
        if let Some(parent) = out.parent() {
            let _ = std::fs::create_dir_all(parent);
        }
        if let Err(e) = std::fs::write(out, serde_json::to_string_pretty(&evidence).unwrap()) {
            eprintln!("cannot write evidence {}: {e}", out.display());
            return ExitCode::from(2);
        }
    }
    println!(
        "{} {}: {} evaluations, {} distinct non-trivial, {} comparisons, {} violations, {:.1}s",
        prop.id,
        if args.thorough { "thorough" } else { "quick" },
        evaluations,
        distinct,
        comparisons,
        violations,
        timer.secs()
    );
    if violations > 0 {
        ExitCode::from(1)
    } else {
        ExitCode::SUCCESS
    }
}
