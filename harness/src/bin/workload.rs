//! C10 / C20 workload: a seeded list of cases, each printed as canonical result lines.
//! Built once per cargo feature combination (raw_strains / sync); the driver compares the
//! outputs of the four binaries line by line (numeric equality: NaN canonical, -0.0 == 0.0).
//!
//! workload --seed S --count N [--threads T]   print all cases (optionally computed on T threads)
//! workload --replay FILE                      print the lines of the case stored in FILE (tape)
//! workload --seed S --dump I --out FILE       write case I as a replay file

use rosu_pp::{model::mode::GameMode, GradualDifficulty};
use rosu_verif::{
    canon::Canon,
    engine::{guarded, install_panic_hook, seeded_tapes},
    gen::{
        diff::{gen_diff, DiffProfile},
        map::{gen_map, MapProfile, ObjKind, ALL_MODES, MANIA_ONLY},
        score::gen_score_spec,
    },
    props::{
        c05::{gradual_cost, GRADUAL_COST_LIMIT},
        common::{calc_for_mode, in_open_taiko_class, perf_for_mode, pick_target, strains_for_mode, units},
    },
    tape::Tape,
};
use serde_json::{json, Value};

const TAPE_LEN: usize = 3000;

/// The generated case in explicit (generator-independent) form.
struct Case {
    text: String,
    target: GameMode,
    dspec: rosu_verif::gen::diff::DiffSpec,
    score: rosu_verif::gen::score::ScoreSpec,
    labels: Vec<String>,
}

fn gen_case(tape: &[u32]) -> Case {
    let mut t = Tape::new(tape.to_vec());
    // families are drawn first, while the tape still has entropy (an exhausted tape reads as zeros)
    let family = t.weighted(&[230, 4, 6, 1]);
    let mut spec = gen_map(&mut t, &MapProfile::small(if family == 3 { MANIA_ONLY } else { ALL_MODES }, if family == 1 { 30 } else if family == 3 { 8 } else { 60 }));
    // long-gap family: breaks of 10 s .. 20 h inside the suspicion limit => runs of zero sections
    let long_gap = t.chance(1, 3) && family != 3 && spec.objects.len() >= 2;
    if long_gap {
        let at = 1 + t.below_usize(spec.objects.len() - 1);
        let gap = match t.weighted(&[3, 3, 2, 1]) {
            0 => t.range(10_000, 600_000),
            1 => t.range(600_000, 7_200_000),
            2 => t.range(7_200_000, 36_000_000),
            _ => t.range(36_000_000, 72_000_000),
        } as f64;
        shift_from(&mut spec, at, gap);
    }
    // long family: the generated objects repeated until the map has 1030-3000 objects (size-dependent code paths)
    let long = family == 1 && spec.objects.len() >= 4;
    if long {
        // (no 1-2 BPM timing here: a repeated hours-long slider would mean millions of nested objects per map)
        for tl in spec.timing.iter_mut() {
            if tl.uninherited && tl.beat_len > 2000.0 {
                tl.beat_len = 500.0;
            }
        }
        let want = t.range(1030, 3000) as usize;
        let base = spec.objects.clone();
        let period = base.last().unwrap().time - base[0].time + 300.0;
        let mut k = 1.0;
        while spec.objects.len() < want {
            for o in &base {
                let mut o = o.clone();
                o.time += period * k;
                if let ObjKind::Spinner { end } | ObjKind::Hold { end } = &mut o.kind {
                    *end += period * k;
                }
                spec.objects.push(o);
            }
            k += 1.0;
        }
    }
    // margin family: taiko at a clock rate r with 5r integral, gaps in pairs (a, a + 5r): after the rate is
    // applied consecutive intervals differ by the rhythm-grouping margin of 5 ms up to rounding
    let margin = family == 2;
    let mut margin_rate = None;
    if margin {
        let r = *t.pick(&[1.2, 1.4, 0.6, 0.8, 1.6, 1.8, 1.0, 2.0]);
        margin_rate = Some(r);
        let n = t.range(20, 80) as usize;
        let mut time = 0.0;
        spec.mode = t.below(2) as u8;
        spec.objects.clear();
        while spec.objects.len() < n {
            let a = t.range(60, 2000) as f64;
            let pair = [a, a, a + 5.0 * r, a + 5.0 * r];
            let reps = t.range(1, 4) as usize;
            for gap in pair.iter().flat_map(|g| std::iter::repeat(*g).take(reps)) {
                time += gap;
                spec.objects.push(rosu_verif::gen::map::ObjSpec { x: 256, y: 192, time, kind: ObjKind::Circle, sound: *t.pick(&[0u8, 0, 8, 2]), custom_sample: false });
            }
        }
    }
    // giga-gap family (mania only: one skill): the last object sits at 1.9e9 ms and the clock rate is 0.25, i.e.
    // 19 million strain sections - more than 2^24 entries in one list
    let giga = family == 3 && spec.objects.len() >= 2;
    if giga {
        let at = spec.objects.len() - 1;
        let gap = 1.9e9 - spec.objects[at].time;
        shift_from(&mut spec, at, gap);
    }
    let target = if margin { GameMode::Taiko } else { pick_target(&mut t, spec.mode) };
    let mut dspec = gen_diff(&mut t, &DiffProfile::realistic().passed(spec.objects.len() as u32), target);
    // ultra-gap class: a gap of 72-130 minutes at clock rate 0.01, i.e. 5-9 days of clock-adjusted
    // emptiness = more than 2^20 consecutive zero sections (about 10 MB per skill in the raw layout)
    let ultra = t.chance(1, 100) && !long && !giga && spec.objects.len() >= 2;
    if ultra {
        let at = 1 + t.below_usize(spec.objects.len() - 1);
        let gap = t.range(4_300_000, 7_800_000) as f64;
        shift_from(&mut spec, at, gap);
        dspec.clock_rate = Some(0.01);
    }
    if let Some(r) = margin_rate {
        dspec.clock_rate = Some(r);
    }
    if giga {
        dspec.clock_rate = Some(0.25);
        dspec.passed = None;
    }
    let mut score = gen_score_spec(&mut t, spec.objects.len() as u32);
    if long && target == GameMode::Mania && score.accuracy.is_some() && score.n300.is_none() {
        // ManiaPerformance::generate_state enumerates O(N^3) candidates when only an accuracy is given
        // (minutes for thousands of objects, see DESIGN §10): pin one count so that the workload stays a workload
        score.n300 = Some(t.range(0, spec.objects.len() as i64) as u32);
    }
    let mut labels = vec![format!("mode{}", spec.mode), format!("target={target:?}")];
    if long_gap {
        labels.push("long-gap-family".into());
    }
    if ultra {
        labels.push("ultra-gap(>2^20 zero sections)".into());
    }
    if long {
        labels.push("long-family(>=1030 objects)".into());
    }
    if margin {
        labels.push("taiko-interval-margin-family".into());
    }
    if giga {
        labels.push("giga-gap(>2^24 sections)".into());
    }
    Case { text: spec.render(), target, dspec, score, labels }
}

fn shift_from(spec: &mut rosu_verif::gen::map::MapSpec, at: usize, gap: f64) {
    for o in spec.objects.iter_mut().skip(at) {
        o.time += gap;
        if let ObjKind::Spinner { end } | ObjKind::Hold { end } = &mut o.kind {
            *end += gap;
        }
    }
}

/// Lines of one case: `label` line first, then one line per call.
fn case_lines(c: &Case) -> Vec<String> {
    let (target, dspec, score) = (c.target, &c.dspec, &c.score);
    let map = rosu_pp::Beatmap::from_bytes(c.text.as_bytes()).expect("decode");
    let d = dspec.build(target);
    let mut out = Vec::new();
    let mut labels = c.labels.clone();
    let full = std::env::var_os("VERIF_FULL_LINES").is_some();
    let run = |name: &str, f: &dyn Fn() -> Result<String, String>| -> String {
        match guarded(f) {
            // long payloads (hundreds of thousands of section peaks) are compared by length + hash
            Ok(Ok(line)) if line.len() > 4000 && !full => format!("{name} len={} fnv={:016x}", line.len(), rosu_verif::engine::fnv(line.as_bytes())),
            Ok(Ok(line)) => format!("{name} {line}"),
            Ok(Err(e)) => format!("{name} ERR {e}"),
            Err(p) => format!("{name} PANIC {p}"),
        }
    };
    out.push(run("difficulty", &|| calc_for_mode(&d, &map, target).map(|a| a.dump().line())));
    let strains = strains_for_mode(&d, &map, target);
    if let Ok(s) = &strains {
        let dump = s.dump();
        let zeros = dump.floats().filter(|(k, v)| k.contains('[') && *v == 0.0).count();
        if zeros >= 2 {
            labels.push("zero-sections>=2".into());
        }
    }
    out.push(run("strains", &|| strains_for_mode(&d, &map, target).map(|a| a.dump().line())));
    out.push(run("performance", &|| Ok(score.apply(perf_for_mode(&map, target).difficulty(d.clone())).calculate().dump().line())));
    // gradual (no preset passed_objects); skip inputs inside open findings
    let mut dg = dspec.clone();
    dg.passed = None;
    let dgd = dg.build(target);
    let skip = match map.convert_ref(target, &dg.mods.build(target)) {
        Ok(c) => {
            (target == GameMode::Taiko && in_open_taiko_class(&c.hit_objects)) || {
                let steps = calc_for_mode(&dgd, &map, target).as_ref().map_or(0, units);
                gradual_cost(&c, c.attributes().difficulty(&dgd).build().clock_rate, steps) > GRADUAL_COST_LIMIT
            }
        }
        Err(_) => true,
    };
    if skip {
        labels.push("gradual-skipped".into());
    } else {
        out.push(run("gradual", &|| {
            let v: Vec<_> = GradualDifficulty::new_with_mode(dgd.clone(), &map, target).map_err(|e| e.to_string())?.collect();
            Ok(v.dump().line())
        }));
    }
    out.insert(0, format!("# {}", labels.join(" ")));
    out
}

fn main() {
    install_panic_hook();
    let args: Vec<String> = std::env::args().collect();
    let get = |k: &str| args.iter().position(|a| a == k).and_then(|i| args.get(i + 1)).cloned();
    let seed: u64 = get("--seed").and_then(|s| s.parse().ok()).or_else(|| std::env::var("VERIF_SEED").ok().and_then(|s| s.parse().ok())).unwrap_or(0);
    if let Some(path) = get("--replay") {
        let v: Value = serde_json::from_str(&std::fs::read_to_string(&path).expect("read")).expect("json");
        let case = if let Some(dv) = v.get("direct").filter(|d| !d.is_null()) {
            Case {
                text: dv.get("osu").and_then(Value::as_str).unwrap_or("").to_string(),
                target: rosu_verif::gen::diff::mode_from_name(dv.get("target").and_then(Value::as_str).unwrap_or("Osu")),
                dspec: rosu_verif::gen::diff::DiffSpec::from_json(dv.get("difficulty").unwrap_or(&Value::Null)).expect("difficulty"),
                score: rosu_verif::gen::score::ScoreSpec::default(),
                labels: vec!["direct".into()],
            }
        } else {
            let tape: Vec<u32> = v.get("tape").and_then(Value::as_array).map(|a| a.iter().map(|x| x.as_u64().unwrap_or(0) as u32).collect()).unwrap_or_default();
            gen_case(&tape)
        };
        for l in case_lines(&case) {
            println!("0 {l}");
        }
        return;
    }
    let count: usize = get("--count").and_then(|s| s.parse().ok()).unwrap_or(100);
    let tapes = seeded_tapes(seed ^ 0xC10, count, TAPE_LEN);
    if let Some(i) = get("--dump").and_then(|s| s.parse::<usize>().ok()) {
        let c = gen_case(&tapes[i]);
        let v = json!({"property": get("--property").unwrap_or_else(|| "C10".into()), "subcheck": "feature-builds", "seed": seed, "index": i, "tape": tapes[i],
                       "direct": {"osu": c.text, "target": rosu_verif::gen::diff::mode_name(c.target), "difficulty": c.dspec.to_json()},
                       "note": "the direct form replays difficulty/strains/gradual with a default score specification",
                       "lines": case_lines(&c).iter().map(|l| l.chars().take(400).collect::<String>()).collect::<Vec<_>>()});
        let path = get("--out").unwrap_or_else(|| "workload-case.json".into());
        if let Some(parent) = std::path::Path::new(&path).parent() {
            let _ = std::fs::create_dir_all(parent);
        }
        std::fs::write(&path, serde_json::to_string_pretty(&v).unwrap()).expect("write");
        return;
    }
    let threads: usize = get("--threads").and_then(|s| s.parse().ok()).unwrap_or(16);
    let results: Vec<std::sync::Mutex<Vec<String>>> = (0..count).map(|_| std::sync::Mutex::new(Vec::new())).collect();
    let next = std::sync::atomic::AtomicUsize::new(0);
    // VERIF_SLOW_CASES=1: report cases that take more than half a second (a tuning aid, on stderr)
    let slow_log = std::env::var_os("VERIF_SLOW_CASES").is_some();
    std::thread::scope(|s| {
        for _ in 0..threads {
            s.spawn(|| loop {
                let i = next.fetch_add(1, std::sync::atomic::Ordering::SeqCst);
                if i >= count {
                    break;
                }
                let t0 = std::time::Instant::now();
                let case = gen_case(&tapes[i]);
                *results[i].lock().unwrap() = case_lines(&case);
                if slow_log && t0.elapsed().as_secs_f64() > 0.5 {
                    eprintln!("slow case {i}: {:.2}s {:?}", t0.elapsed().as_secs_f64(), case.labels);
                }
            });
        }
    });
    let stdout = std::io::stdout();
    let mut w = std::io::BufWriter::new(stdout.lock());
    use std::io::Write;
    for (i, r) in results.iter().enumerate() {
        for l in r.lock().unwrap().iter() {
            let _ = writeln!(w, "{i} {l}");
        }
    }
}
