//! G-SCORE: score states and performance-builder specifications.

use rosu_pp::{
    any::{DifficultyAttributes, HitResultPriority, ScoreState},
    Performance,
};
use serde_json::{json, Value};

use crate::tape::Tape;

/// Which setters to call on a `Performance` (each independently absent or set).
#[derive(Clone, Debug, Default, PartialEq)]
pub struct ScoreSpec {
    pub accuracy: Option<f64>,
    pub combo: Option<u32>,
    pub misses: Option<u32>,
    pub n300: Option<u32>,
    pub n100: Option<u32>,
    pub n50: Option<u32>,
    pub n_katu: Option<u32>,
    pub n_geki: Option<u32>,
    pub large_tick_hits: Option<u32>,
    pub small_tick_hits: Option<u32>,
    pub slider_end_hits: Option<u32>,
    pub worst_case: Option<bool>,
    pub state: Option<ScoreState>,
}

impl ScoreSpec {
    pub fn apply<'a>(&self, mut p: Performance<'a>) -> Performance<'a> {
        if let Some(s) = &self.state {
            p = p.state(s.clone());
        }
        if let Some(v) = self.accuracy {
            p = p.accuracy(v);
        }
        if let Some(v) = self.combo {
            p = p.combo(v);
        }
        if let Some(v) = self.misses {
            p = p.misses(v);
        }
        if let Some(v) = self.n300 {
            p = p.n300(v);
        }
        if let Some(v) = self.n100 {
            p = p.n100(v);
        }
        if let Some(v) = self.n50 {
            p = p.n50(v);
        }
        if let Some(v) = self.n_katu {
            p = p.n_katu(v);
        }
        if let Some(v) = self.n_geki {
            p = p.n_geki(v);
        }
        if let Some(v) = self.large_tick_hits {
            p = p.large_tick_hits(v);
        }
        if let Some(v) = self.small_tick_hits {
            p = p.small_tick_hits(v);
        }
        if let Some(v) = self.slider_end_hits {
            p = p.slider_end_hits(v);
        }
        if let Some(w) = self.worst_case {
            p = p.hitresult_priority(if w { HitResultPriority::WorstCase } else { HitResultPriority::BestCase });
        }
        p
    }

    pub fn is_default(&self) -> bool {
        *self == Self::default()
    }

    pub fn describe(&self) -> Value {
        json!(format!("{self:?}"))
    }
}

fn count(t: &mut Tape, n: u32) -> u32 {
    match t.weighted(&[10, 2, 1]) {
        0 => t.range(0, i64::from(n) + 3) as u32,
        1 => t.range(0, i64::from(n) * 2 + 3) as u32,
        _ => *t.pick(&[0u32, 1, 100_000, u32::MAX / 8]),
    }
}

fn opt_count(t: &mut Tape, n: u32, num: u32, den: u32) -> Option<u32> {
    if t.chance(num, den) {
        Some(count(t, n))
    } else {
        None
    }
}

/// A builder specification; `n` is (roughly) the number of objects.
pub fn gen_score_spec(t: &mut Tape, n: u32) -> ScoreSpec {
    if t.chance(1, 6) {
        return ScoreSpec::default();
    }
    let accuracy = if t.chance(1, 2) {
        Some(match t.weighted(&[8, 3, 1]) {
            0 => t.float(0.0, 100.0),
            1 => *t.pick(&[100.0, 0.0, 99.0, 95.5, 50.0, 33.333]),
            _ => *t.pick(&[-5.0, 150.0, 1e9]),
        })
    } else {
        None
    };
    ScoreSpec {
        accuracy,
        combo: opt_count(t, n * 2, 1, 3),
        misses: opt_count(t, n, 1, 3),
        n300: opt_count(t, n, 1, 4),
        n100: opt_count(t, n, 1, 4),
        n50: opt_count(t, n, 1, 4),
        n_katu: opt_count(t, n, 1, 6),
        n_geki: opt_count(t, n, 1, 6),
        large_tick_hits: opt_count(t, n, 1, 8),
        small_tick_hits: opt_count(t, n, 1, 8),
        slider_end_hits: opt_count(t, n, 1, 8),
        worst_case: if t.chance(1, 3) { Some(t.coin()) } else { None },
        state: None,
    }
}

/// Arbitrary (possibly inconsistent) state with counts up to ~2n.
pub fn gen_any_state(t: &mut Tape, n: u32) -> ScoreState {
    let c = |t: &mut Tape| {
        if t.chance(1, 3) {
            0
        } else {
            t.range(0, i64::from(n) * 2 + 2) as u32
        }
    };
    ScoreState {
        max_combo: c(t),
        osu_large_tick_hits: c(t),
        osu_small_tick_hits: c(t),
        slider_end_hits: c(t),
        n_geki: c(t),
        n_katu: c(t),
        n300: c(t),
        n100: c(t),
        n50: c(t),
        misses: c(t),
    }
}

/// Split `n` into `k` non-negative parts with a style: all-first, all-last (misses), random.
fn split(t: &mut Tape, n: u32, k: usize) -> Vec<u32> {
    let mut parts = vec![0u32; k];
    match t.weighted(&[3, 1, 6]) {
        0 => parts[0] = n,
        1 => parts[k - 1] = n,
        _ => {
            let mut rem = n;
            for p in parts.iter_mut().take(k - 1) {
                let v = if t.chance(1, 3) { 0 } else { t.range(0, i64::from(rem)) as u32 };
                *p = v;
                rem -= v;
            }
            // remainder to a random slot
            let slot = t.below_usize(k);
            parts[slot] += rem;
        }
    }
    parts
}

/// A state *consistent* with the object counts in `attrs` (one judgement per object).
pub fn gen_consistent_state(t: &mut Tape, attrs: &DifficultyAttributes, lazer_non_classic: bool) -> ScoreState {
    let mut s = ScoreState::new();
    match attrs {
        DifficultyAttributes::Osu(a) => {
            let n = a.n_objects();
            let p = split(t, n, 4);
            s.n300 = p[0];
            s.n100 = p[1];
            s.n50 = p[2];
            s.misses = p[3];
            // slider parts: half of the states hit every part (with the Classic mod slider heads count as
            // large ticks, hence up to n_large_ticks + n_sliders; the builders clamp to the origin's maximum)
            let full = t.chance(1, 2);
            let part = |t: &mut Tape, max: u32| if full { max } else { t.range(0, i64::from(max)) as u32 };
            s.osu_large_tick_hits = part(t, a.n_large_ticks + a.n_sliders);
            s.slider_end_hits = part(t, a.n_sliders);
            s.osu_small_tick_hits = part(t, a.n_sliders);
            let max = a.max_combo.saturating_sub(s.misses);
            s.max_combo = if s.misses == 0 && t.chance(2, 3) { a.max_combo } else { t.range(0, i64::from(max)) as u32 };
        }
        DifficultyAttributes::Taiko(a) => {
            let p = split(t, a.max_combo, 3);
            s.n300 = p[0];
            s.n100 = p[1];
            s.misses = p[2];
            let max = a.max_combo.saturating_sub(s.misses);
            s.max_combo = if t.chance(1, 2) { max } else { t.range(0, i64::from(max)) as u32 };
        }
        DifficultyAttributes::Catch(a) => {
            let fm = if t.chance(1, 2) { 0 } else { t.range(0, i64::from(a.n_fruits)) as u32 };
            let dm = if t.chance(1, 2) { 0 } else { t.range(0, i64::from(a.n_droplets)) as u32 };
            s.n300 = a.n_fruits - fm;
            s.n100 = a.n_droplets - dm;
            s.misses = fm + dm;
            let tiny = if t.chance(1, 2) { a.n_tiny_droplets } else { t.range(0, i64::from(a.n_tiny_droplets)) as u32 };
            s.n50 = tiny;
            s.n_katu = a.n_tiny_droplets - tiny;
            let max = a.max_combo().saturating_sub(s.misses);
            s.max_combo = if t.chance(1, 2) { max } else { t.range(0, i64::from(max)) as u32 };
        }
        DifficultyAttributes::Mania(a) => {
            let n = a.n_objects + if lazer_non_classic { a.n_hold_notes } else { 0 };
            let p = split(t, n, 6);
            s.n_geki = p[0];
            s.n300 = p[1];
            s.n_katu = p[2];
            s.n100 = p[3];
            s.n50 = p[4];
            s.misses = p[5];
        }
    }
    s
}
