//! G-MAP: structured beatmap specification rendered to `.osu` text. Inputs always
//! enter rosu-pp through the decoder.

use std::fmt::Write as _;

use rosu_pp::Beatmap;
use serde_json::{json, Value};

use crate::tape::Tape;

#[derive(Clone, Debug, PartialEq)]
pub enum ObjKind {
    Circle,
    Slider {
        curve: char,
        points: Vec<(i32, i32)>,
        slides: i32,
        len: Option<f64>,
        node_sounds: Option<Vec<u8>>,
    },
    Spinner { end: f64 },
    Hold { end: f64 },
}

#[derive(Clone, Debug, PartialEq)]
pub struct ObjSpec {
    pub x: i32,
    pub y: i32,
    pub time: f64,
    pub kind: ObjKind,
    pub sound: u8,
    /// custom sample filename present (clears the NORMAL bit in the decoder)
    pub custom_sample: bool,
}

#[derive(Clone, Debug, PartialEq)]
pub struct TimingLine {
    pub time: f64,
    /// positive: beat length of an uninherited point; negative: -100/SV for an inherited one; may be NaN
    pub beat_len: f64,
    pub uninherited: bool,
    pub kiai: bool,
}

#[derive(Clone, Debug, PartialEq)]
pub struct MapSpec {
    pub version: Option<u8>,
    pub mode: u8,
    pub stack_leniency: f64,
    pub ar: Option<f64>,
    pub cs: f64,
    pub od: f64,
    pub hp: f64,
    pub slider_mult: f64,
    pub tick_rate: f64,
    pub timing: Vec<TimingLine>,
    pub breaks: Vec<(f64, f64)>,
    pub objects: Vec<ObjSpec>,
    /// write [Difficulty] before [General] (the mode is then only known after CircleSize was read)
    pub difficulty_first: bool,
}

fn num(v: f64) -> String {
    if v.is_nan() {
        "NaN".to_string()
    } else if v == v.trunc() && v.abs() < 1e15 {
        format!("{}", v as i64)
    } else {
        format!("{v}")
    }
}

impl ObjSpec {
    pub fn render(&self) -> String {
        let sample = if self.custom_sample { "0:0:0:0:x.wav" } else { "0:0:0:0:" };
        match &self.kind {
            ObjKind::Circle => format!("{},{},{},1,{},{}", self.x, self.y, num(self.time), self.sound, sample),
            ObjKind::Slider { curve, points, slides, len, node_sounds } => {
                let mut s = format!("{},{},{},2,{},{}", self.x, self.y, num(self.time), self.sound, curve);
                for (px, py) in points {
                    let _ = write!(s, "|{px}:{py}");
                }
                let _ = write!(s, ",{slides}");
                if let Some(l) = len {
                    let _ = write!(s, ",{}", num(*l));
                    if let Some(ns) = node_sounds {
                        let strs: Vec<String> = ns.iter().map(|b| b.to_string()).collect();
                        let _ = write!(s, ",{}", strs.join("|"));
                        let sets: Vec<&str> = ns.iter().map(|_| "0:0").collect();
                        let _ = write!(s, ",{},{}", sets.join("|"), sample);
                    }
                }
                s
            }
            ObjKind::Spinner { end } => {
                format!("{},{},{},12,{},{},{}", self.x, self.y, num(self.time), self.sound, num(*end), sample)
            }
            ObjKind::Hold { end } => {
                format!("{},{},{},128,{},{}:{}", self.x, self.y, num(self.time), self.sound, num(*end), sample)
            }
        }
    }

    pub fn kind_name(&self) -> &'static str {
        match self.kind {
            ObjKind::Circle => "circle",
            ObjKind::Slider { .. } => "slider",
            ObjKind::Spinner { .. } => "spinner",
            ObjKind::Hold { .. } => "hold",
        }
    }
}

impl MapSpec {
    pub fn render(&self) -> String {
        let mut s = String::with_capacity(256 + self.objects.len() * 48);
        if let Some(v) = self.version {
            let _ = writeln!(s, "osu file format v{v}\n");
        }
        let general = format!("[General]\nStackLeniency: {}\nMode: {}\n\n", self.stack_leniency, self.mode);
        let mut difficulty = format!("[Difficulty]\nHPDrainRate:{}\nCircleSize:{}\nOverallDifficulty:{}\n", self.hp, self.cs, self.od);
        if let Some(ar) = self.ar {
            let _ = writeln!(difficulty, "ApproachRate:{ar}");
        }
        let _ = writeln!(difficulty, "SliderMultiplier:{}\nSliderTickRate:{}\n", self.slider_mult, self.tick_rate);
        if self.difficulty_first {
            s.push_str(&difficulty);
            s.push_str(&general);
        } else {
            s.push_str(&general);
            s.push_str(&difficulty);
        }
        if !self.breaks.is_empty() {
            let _ = writeln!(s, "[Events]");
            for (a, b) in &self.breaks {
                let _ = writeln!(s, "2,{},{}", num(*a), num(*b));
            }
            s.push('\n');
        }
        let _ = writeln!(s, "[TimingPoints]");
        for t in &self.timing {
            let _ = writeln!(
                s,
                "{},{},4,2,0,60,{},{}",
                num(t.time),
                if t.beat_len.is_nan() { (if t.beat_len.is_sign_negative() { "-NaN" } else { "NaN" }).to_string() } else { format!("{}", t.beat_len) },
                u8::from(t.uninherited),
                u8::from(t.kiai)
            );
        }
        let _ = writeln!(s, "\n[HitObjects]");
        for o in &self.objects {
            s.push_str(&o.render());
            s.push('\n');
        }
        s
    }

    pub fn decode(&self) -> Beatmap {
        Beatmap::from_bytes(self.render().as_bytes()).expect("decoding generated text is infallible (no io)")
    }

    /// Abbreviated rendering for evidence samples.
    pub fn sample(&self) -> Value {
        let objs: Vec<String> = self.objects.iter().take(8).map(ObjSpec::render).collect();
        json!({
            "version": self.version, "mode": self.mode, "ar": self.ar, "cs": self.cs, "od": self.od, "hp": self.hp,
            "slider_mult": self.slider_mult, "tick_rate": self.tick_rate, "difficulty_section_first": self.difficulty_first,
            "timing": self.timing.iter().take(4).map(|t| format!("{},{},{},{}", num(t.time), t.beat_len, u8::from(t.uninherited), u8::from(t.kiai))).collect::<Vec<_>>(),
            "n_objects": self.objects.len(),
            "objects_head": objs,
        })
    }

    pub fn has_kind(&self, name: &str) -> bool {
        self.objects.iter().any(|o| o.kind_name() == name)
    }
}

#[derive(Clone, Debug)]
pub struct MapProfile {
    pub modes: &'static [u8],
    /// weights for object-count classes: degenerate 0..=3, small 4..=20, medium 21..=max
    pub size_weights: [u32; 3],
    pub max_objects: usize,
    pub adversarial: bool,
    /// allow gaps of minutes to hours
    pub long_gaps: bool,
    /// permit negative first time
    pub negative_start: bool,
    /// share (1/n) of maps whose gaps are all 100-300 s: every strain section stays non-zero for hours
    /// of map time (thousands of non-zero sections from a handful of objects); 0 = never
    pub marathon_one_in: u32,
}

impl MapProfile {
    pub const fn realistic(modes: &'static [u8], max_objects: usize) -> Self {
        Self {
            modes,
            size_weights: [3, 4, 3],
            max_objects,
            adversarial: false,
            long_gaps: true,
            negative_start: true,
            marathon_one_in: 40,
        }
    }
    pub const fn small(modes: &'static [u8], max_objects: usize) -> Self {
        Self {
            modes,
            size_weights: [4, 5, 1],
            max_objects,
            adversarial: false,
            long_gaps: true,
            negative_start: true,
            marathon_one_in: 40,
        }
    }
    pub const fn adversarial(modes: &'static [u8], max_objects: usize) -> Self {
        Self {
            modes,
            size_weights: [2, 4, 4],
            max_objects,
            adversarial: true,
            long_gaps: true,
            negative_start: true,
            marathon_one_in: 40,
        }
    }
}

pub const ALL_MODES: &[u8] = &[0, 1, 2, 3];
pub const OSU_ONLY: &[u8] = &[0];
pub const MANIA_ONLY: &[u8] = &[3];

const BEAT_LENS: &[f64] = &[500.0, 333.333333333333, 400.0, 300.0, 250.0, 600.0, 1000.0, 200.0, 150.0, 2000.0, 375.0, 461.538461538462];
const SVS: &[f64] = &[1.0, 0.5, 0.75, 1.5, 2.0, 0.1, 1.25, 3.0, 10.0, 0.33];

fn gen_pos(t: &mut Tape, prev: Option<(i32, i32)>, adversarial: bool) -> (i32, i32) {
    // exact repeat / near (stack threshold) / grid / edges / adversarial far
    let w: &[u32] = if adversarial { &[4, 3, 3, 6, 2, 2] } else { &[4, 3, 3, 6, 2, 0] };
    match t.weighted(w) {
        0 => (256, 192),
        1 => prev.unwrap_or((256, 192)),
        2 => {
            let (px, py) = prev.unwrap_or((256, 192));
            (px + t.range(-3, 3) as i32, py + t.range(-3, 3) as i32)
        }
        3 => (t.range(0, 16) as i32 * 32, t.range(0, 12) as i32 * 32),
        4 => (*t.pick(&[0, 512, -100, 700]), *t.pick(&[0, 384, -100, 700])),
        _ => (*t.pick(&[131_072, -131_072, 10_001, -9_999, 65_536]), *t.pick(&[0, 131_072, -131_072, 20_000])),
    }
}

fn gen_gap(t: &mut Tape, p: &MapProfile) -> f64 {
    let w: &[u32] = if p.long_gaps { &[20, 6, 8, 4, 2, 1, 1] } else { &[20, 6, 8, 4, 0, 0, 0] };
    match t.weighted(w) {
        0 => t.range(60, 600) as f64,
        1 => 0.0,
        2 => t.range(1, 20) as f64,
        3 => t.range(1000, 5000) as f64,
        4 => t.range(5_000, 60_000) as f64,
        5 => t.range(60_000, 600_000) as f64,
        // long enough for every skill's strain to decay to exactly zero: runs of zero sections
        _ => t.range(600_000, 4_000_000) as f64,
    }
}

fn gen_slider(t: &mut Tape, x: i32, y: i32, p: &MapProfile) -> ObjKind {
    let curve = *t.pick(&['L', 'B', 'P', 'C']);
    let npts = match curve {
        'P' => *t.pick(&[2usize, 2, 2, 1, 3]),
        _ => t.range(1, 4) as usize,
    };
    let mut points = Vec::with_capacity(npts);
    let mut last = (x, y);
    for i in 0..npts {
        let pt = match t.weighted(&[8, 2, 1]) {
            0 => (last.0 + t.range(-120, 120) as i32, last.1 + t.range(-90, 90) as i32),
            // repeated point -> segment split in the decoder
            1 => last,
            // collinear continuation (perfect curve degenerates to linear)
            _ => (last.0 + 40 * (i as i32 + 1), last.1),
        };
        points.push(pt);
        last = pt;
    }
    let slides = if p.adversarial {
        match t.weighted(&[10, 3, 1, 1]) {
            0 => t.range(1, 4) as i32,
            1 => t.range(5, 30) as i32,
            2 => t.range(31, 100) as i32,
            _ => *t.pick(&[0, -1, 1]),
        }
    } else {
        *t.pick(&[1, 1, 1, 2, 2, 3, 4, 5])
    };
    let len = if p.adversarial {
        match t.weighted(&[10, 2, 1, 1, 1]) {
            0 => Some(t.range(10, 600) as f64),
            1 => Some(t.range(600, 20_000) as f64),
            2 => Some(0.0),
            3 => None,
            _ => Some(t.float(0.0, 50.0)),
        }
    } else {
        match t.weighted(&[12, 3, 1]) {
            0 => Some(t.range(10, 600) as f64),
            1 => Some(t.float(5.0, 600.0)),
            _ => Some(t.range(1, 10) as f64),
        }
    };
    let node_sounds = if len.is_some() && t.chance(1, 3) {
        let n = (slides.max(1) as usize + 1).min(12);
        Some((0..n).map(|_| *t.pick(&[0u8, 2, 4, 8, 6, 10, 14, 1])).collect())
    } else {
        None
    };
    ObjKind::Slider { curve, points, slides, len, node_sounds }
}

fn pick_kind(t: &mut Tape, mode: u8, adversarial: bool) -> u8 {
    // 0 circle 1 slider 2 spinner 3 hold
    match (mode, adversarial) {
        // (a slider- or spinner-typed line in a mania file is kept by the decoder; rare here)
        (3, false) => *t.pick(&[0u8, 0, 0, 3, 3, 0, 0, 0, 3, 3, 0, 0, 0, 3, 3, 0, 0, 0, 3, 3, 1, 2]),
        (3, true) => *t.pick(&[0u8, 0, 3, 3, 1, 2]),
        // (the decoder keeps a hold-note line in any mode: the non-mania calculators treat it as a spinner)
        (_, false) => *t.pick(&[0u8, 0, 0, 1, 1, 2, 0, 0, 0, 1, 1, 2, 0, 0, 0, 1, 1, 2, 3]),
        (_, true) => *t.pick(&[0u8, 0, 1, 1, 2, 3]),
    }
}

fn uniform_kind(t: &mut Tape, mode: u8) -> u8 {
    if mode == 3 {
        *t.pick(&[0u8, 3])
    } else {
        *t.pick(&[0u8, 1, 2])
    }
}

pub fn gen_map(t: &mut Tape, p: &MapProfile) -> MapSpec {
    let mode = *t.pick(p.modes);
    let version = match t.weighted(&[8, 2, 2, 2, 2, 1, 1]) {
        0 => Some(14),
        1 => Some(*t.pick(&[5u8, 6])),
        2 => Some(*t.pick(&[7u8, 8])),
        3 => Some(t.range(3, 14) as u8),
        4 => Some(*t.pick(&[9u8, 10, 11, 12, 13])),
        5 => None,
        _ => Some(*t.pick(&[3u8, 4, 128])),
    };
    let diff_val = |t: &mut Tape| -> f64 {
        match t.weighted(&[6, 6, 2, 1]) {
            0 => 5.0,
            1 => t.range(0, 10) as f64,
            2 => (t.range(0, 100) as f64) / 10.0,
            _ => *t.pick(&[0.0, 10.0, 11.0, -1.0, 9.5, 0.5, 18.0]),
        }
    };
    let cs = if mode == 3 {
        match t.weighted(&[8, 2, 1]) {
            0 => *t.pick(&[4.0, 7.0, 5.0, 6.0]),
            1 => t.range(1, 10) as f64,
            _ => *t.pick(&[0.0, 18.0, 20.0, 4.5, 1.0]),
        }
    } else {
        diff_val(t)
    };
    let od = diff_val(t);
    let hp = diff_val(t);
    let ar = if t.chance(1, 6) { None } else { Some(diff_val(t)) };
    let stack_leniency = *t.pick(&[0.7, 0.0, 1.0, 0.3, 0.5]);
    let slider_mult = match t.weighted(&[6, 4, 1]) {
        0 => 1.4,
        1 => (t.range(4, 36) as f64) / 10.0,
        _ => *t.pick(&[0.4, 3.6, 0.1, 5.0]),
    };
    let tick_rate = match t.weighted(&[6, 3, 1]) {
        0 => 1.0,
        1 => *t.pick(&[2.0, 4.0, 0.5, 3.0]),
        _ => *t.pick(&[8.0, 0.25, 1.5]),
    };

    // ----- objects
    let n = match t.weighted(&p.size_weights) {
        0 => t.range(0, 3) as usize,
        1 => t.range(4, 20.min(p.max_objects as i64).max(4)) as usize,
        _ => t.range(21.min(p.max_objects as i64), p.max_objects as i64) as usize,
    }
    .min(p.max_objects);
    let first_kind = uniform_kind(t, mode);
    let last_kind = uniform_kind(t, mode);
    let mut time = if p.negative_start && t.chance(1, 8) {
        -(t.range(1, 5000) as f64)
    } else {
        match t.weighted(&[5, 3, 1]) {
            0 => t.range(0, 2000) as f64,
            1 => 0.0,
            _ => t.range(2000, 120_000) as f64,
        }
    };
    if p.adversarial && t.chance(1, 12) {
        time = *t.pick(&[16_777_216.0, 2_147_483_000.0, -2_147_483_000.0, 40_000_000.0]);
    }
    let keys = if mode == 3 { cs.clamp(1.0, 18.0).round() as i32 } else { 4 };
    let marathon = p.marathon_one_in > 0 && t.chance(1, p.marathon_one_in);
    let mut objects: Vec<ObjSpec> = Vec::with_capacity(n);
    let mut prev_pos = None;
    for i in 0..n {
        if i > 0 {
            let mut gap = if marathon { t.range(100_000, 300_000) as f64 } else { gen_gap(t, p) };
            if t.chance(1, 16) {
                gap += 0.5; // fractional times are legal in the format
            }
            time += gap;
        }
        let k = if i == 0 {
            first_kind
        } else if i + 1 == n {
            last_kind
        } else {
            pick_kind(t, mode, p.adversarial)
        };
        let (x, y) = if mode == 3 && !(p.adversarial && t.chance(1, 10)) {
            let col = t.range(0, (keys - 1).max(0) as i64) as i32;
            ((col * 512 + 256) / keys.max(1), 192)
        } else {
            gen_pos(t, prev_pos, p.adversarial)
        };
        prev_pos = Some((x, y));
        let kind = match k {
            0 => ObjKind::Circle,
            1 => gen_slider(t, x, y, p),
            2 => {
                let d = if p.adversarial {
                    match t.weighted(&[8, 1, 1, 1]) {
                        0 => t.range(100, 4000) as f64,
                        1 => 0.0,
                        2 => 1.0,
                        _ => -(t.range(1, 500) as f64),
                    }
                } else {
                    *t.pick(&[1000.0, 400.0, 2500.0, 50.0, 0.0, 6000.0])
                };
                ObjKind::Spinner { end: time + d }
            }
            _ => {
                let d = if p.adversarial {
                    match t.weighted(&[8, 1, 1]) {
                        0 => t.range(50, 3000) as f64,
                        1 => 0.0,
                        _ => -(t.range(1, 500) as f64),
                    }
                } else {
                    match t.weighted(&[60, 20, 10, 1, 15]) {
                        0 => t.range(80, 1500) as f64,
                        1 => t.range(1, 99) as f64,
                        2 => 0.0,
                        // hours-long hold note: its combo alone exceeds 65535
                        3 => t.range(6_600_000, 30_000_000) as f64,
                        // exact multiples of the 100 ms combo interval
                        _ => (t.range(1, 12) * 100) as f64,
                    }
                };
                ObjKind::Hold { end: time + d }
            }
        };
        let sound = match t.weighted(&[6, 6, 1]) {
            0 => 0,
            1 => *t.pick(&[2u8, 4, 8, 6, 10, 12, 14, 1]),
            _ => t.range(0, 255) as u8,
        };
        objects.push(ObjSpec { x, y, time, kind, sound, custom_sample: t.chance(1, 24) });
    }

    // ----- timing
    let t0 = objects.first().map_or(0.0, |o| o.time);
    let t_end = objects.last().map_or(1000.0, |o| o.time);
    let mut timing = Vec::new();
    let n_timing = t.weighted(&[6, 4, 2, 1, 1, 1]) + 1; // 1..=6
    let first_time = match t.weighted(&[6, 3, 1]) {
        0 => t0.min(0.0),
        1 => t0,
        _ => t0 + t.range(1, 3000) as f64, // first point after the first object
    };
    timing.push(TimingLine {
        time: first_time,
        beat_len: gen_beat_len(t, p.adversarial),
        uninherited: true,
        kiai: t.chance(1, 6),
    });
    for _ in 1..n_timing {
        let time = match t.weighted(&[8, 2, 1]) {
            0 => (t0 + t.unit() * (t_end - t0 + 1.0)).floor(),
            1 => timing.last().map_or(0.0, |l: &TimingLine| l.time), // equal time as previous line
            _ => t_end + t.range(0, 5000) as f64,
        };
        let uninherited = t.chance(1, 3);
        let beat_len = if uninherited {
            gen_beat_len(t, p.adversarial)
        } else if t.chance(1, 24) {
            if t.coin() { f64::NAN } else { -f64::NAN }
        } else {
            -100.0 / *t.pick(SVS)
        };
        timing.push(TimingLine { time, beat_len, uninherited, kiai: t.chance(1, 5) });
    }
    // lines are usually written in time order; keep generated order sometimes
    if !t.chance(1, 6) {
        timing.sort_by(|a, b| a.time.total_cmp(&b.time));
    }

    let mut breaks = Vec::new();
    let nb = t.weighted(&[8, 2, 1]);
    for _ in 0..nb {
        let a = (t0 + t.unit() * (t_end - t0 + 1.0)).floor();
        let d = t.range(0, 20_000) as f64;
        breaks.push((a, a + d));
    }

    MapSpec {
        version,
        mode,
        stack_leniency,
        ar,
        cs,
        od,
        hp,
        slider_mult,
        tick_rate,
        timing,
        breaks,
        objects,
        difficulty_first: t.chance(1, 10),
    }
}

fn gen_beat_len(t: &mut Tape, adversarial: bool) -> f64 {
    let w: &[u32] = if adversarial { &[8, 4, 2, 0] } else { &[16, 8, 0, 1] };
    match t.weighted(w) {
        0 => *t.pick(BEAT_LENS),
        1 => 60_000.0 / (t.range(30, 400) as f64),
        2 => *t.pick(&[6.0, 60_000.0, 1.0, 0.0, 100_000.0, 5.999]),
        // 1-2 BPM: a slider then spans tens of seconds between two ticks (hundreds of tiny droplets in catch)
        _ => *t.pick(&[60_000.0, 40_000.0, 30_000.0]),
    }
}

/// Classification labels shared by all map-based sub-checks.
pub fn map_labels(spec: &MapSpec, info: &mut crate::engine::CaseInfo) {
    let n = spec.objects.len();
    info.label(format!("mode{}", spec.mode));
    info.label(match n {
        0 => "n=0",
        1 => "n=1",
        2 => "n=2",
        3 => "n=3",
        4..=20 => "n=4..20",
        _ => "n>20",
    });
    if let Some(o) = spec.objects.first() {
        info.label(format!("first={}", o.kind_name()));
    }
    if let Some(o) = spec.objects.last() {
        info.label(format!("last={}", o.kind_name()));
    }
    info.label_if(spec.objects.first().is_some_and(|o| o.time < 0.0), "negative-start");
    info.label_if(
        spec.objects.windows(2).any(|w| w[1].time - w[0].time >= 5000.0),
        "long-gap",
    );
    info.label_if(
        spec.objects.windows(2).any(|w| w[1].time - w[0].time >= 600_000.0),
        "gap>=10min",
    );
    info.label_if(spec.objects.windows(2).any(|w| w[1].time == w[0].time), "equal-times");
    info.label_if(spec.version.is_some_and(|v| v < 8), "version<8");
    info.label_if(spec.difficulty_first, "difficulty-section-first");
    info.label_if(n >= 8 && spec.objects.windows(2).all(|w| w[1].time - w[0].time >= 100_000.0), "marathon");
}
