//! G-DIFF: `DiffSpec` → `Difficulty`, with mods in any of the accepted representations.

use rosu_pp::{
    model::{
        mode::GameMode,
        mods::rosu_mods::{
            self,
            generated_mods::{
                DifficultyAdjustCatch, DifficultyAdjustMania, DifficultyAdjustOsu, DifficultyAdjustTaiko,
            },
            GameMod, GameModsIntermode, GameModsLegacy,
        },
    },
    Difficulty, GameMods,
};
use serde_json::{json, Value};

use crate::tape::Tape;

pub const NF: u32 = 1;
pub const EZ: u32 = 2;
pub const TD: u32 = 4;
pub const HD: u32 = 8;
pub const HR: u32 = 16;
pub const DT: u32 = 64;
pub const RX: u32 = 128;
pub const HT: u32 = 256;
pub const NC: u32 = 512 + 64;
pub const FL: u32 = 1024;
pub const SO: u32 = 4096;
pub const AP: u32 = 8192;
pub const K4: u32 = 1 << 15;
pub const K5: u32 = 1 << 16;
pub const K6: u32 = 1 << 17;
pub const K7: u32 = 1 << 18;
pub const K8: u32 = 1 << 19;
pub const K9: u32 = 1 << 24;
pub const K1: u32 = 1 << 26;
pub const K3: u32 = 1 << 27;
pub const K2: u32 = 1 << 28;
pub const MR_BIT: u32 = 1 << 30;
pub const KEY_BITS: [u32; 9] = [K1, K2, K3, K4, K5, K6, K7, K8, K9];
pub const ALL_KEYS: u32 = K1 | K2 | K3 | K4 | K5 | K6 | K7 | K8 | K9;

pub fn mode_of(m: u8) -> GameMode {
    match m {
        0 => GameMode::Osu,
        1 => GameMode::Taiko,
        2 => GameMode::Catch,
        _ => GameMode::Mania,
    }
}

pub fn mods_mode(m: GameMode) -> rosu_mods::GameMode {
    match m {
        GameMode::Osu => rosu_mods::GameMode::Osu,
        GameMode::Taiko => rosu_mods::GameMode::Taiko,
        GameMode::Catch => rosu_mods::GameMode::Catch,
        GameMode::Mania => rosu_mods::GameMode::Mania,
    }
}

#[derive(Clone, Copy, Debug, PartialEq, Eq)]
pub enum ModRepr {
    U32,
    Legacy,
    Intermode,
    IntermodeRef,
    Lazer,
}

pub const ALL_REPRS: [ModRepr; 5] = [
    ModRepr::U32,
    ModRepr::Legacy,
    ModRepr::Intermode,
    ModRepr::IntermodeRef,
    ModRepr::Lazer,
];

/// Lazer-only additions (only meaningful with `ModRepr::Lazer`).
#[derive(Clone, Debug, PartialEq)]
pub enum LazerExtra {
    Classic,
    /// Classic with `no_slider_head_accuracy` set explicitly (osu!; a plain Classic mod in the other modes)
    ClassicSetting(bool),
    /// osu! mirror with reflection setting (None, "1", "2")
    Mirror(Option<&'static str>),
    HoldOff,
    Invert,
    /// lazer Random mod; `None` = no seed given (the library must then not invent one)
    Random(Option<f64>),
    /// ar, cs, hp, od
    DifficultyAdjust(Option<f64>, Option<f64>, Option<f64>, Option<f64>),
    /// speed change for whichever rate mod is contained in `bits`
    Rate(f64),
    TenKeys,
    /// lazer-only Daycore (no legacy bit), with an optional speed change
    Daycore(Option<f64>),
    /// speed change for the rate mod with the given acronym only
    RateOf(&'static str, f64),
    /// any other lazer-only mod by acronym (Blinds, Traceable, Muted, ...); skipped when the mode lacks it
    Acronym(&'static str),
}

/// Acronyms for `LazerExtra::Acronym`: the two lazer-only mods the calculators look at and a few they must ignore.
/// (Blinds and Traceable, which the osu! performance calculator reads, are listed more than once.)
pub const LAZER_ACRONYMS: [&str; 10] = ["BL", "TC", "MU", "BL", "NS", "TC", "AL", "BL", "SG", "WG"];

#[derive(Clone, Debug, PartialEq)]
pub struct ModsSpec {
    pub bits: u32,
    pub repr: ModRepr,
    pub extras: Vec<LazerExtra>,
}

impl ModsSpec {
    pub const fn nomod() -> Self {
        Self { bits: 0, repr: ModRepr::U32, extras: Vec::new() }
    }
    pub const fn bits(bits: u32) -> Self {
        Self { bits, repr: ModRepr::U32, extras: Vec::new() }
    }

    /// Build the lazer representation for a mode; `None` if the mode lacks one of the mods.
    pub fn lazer(&self, mode: GameMode) -> Option<rosu_mods::GameMods> {
        let inter = GameModsIntermode::from_bits(self.bits);
        let mut mods = inter.try_with_mode(mods_mode(mode))?;
        let mm = mods_mode(mode);
        for e in &self.extras {
            match e {
                LazerExtra::Classic => mods.insert(GameMod::new("CL", mm)),
                LazerExtra::ClassicSetting(b) => {
                    let mut m = GameMod::new("CL", mm);
                    if let GameMod::ClassicOsu(cl) = &mut m {
                        cl.no_slider_head_accuracy = Some(*b);
                    }
                    mods.insert(m);
                }
                LazerExtra::Mirror(r) => {
                    let mut m = GameMod::new("MR", mm);
                    if let GameMod::MirrorOsu(mr) = &mut m {
                        mr.reflection = r.map(str::to_string);
                    }
                    if !matches!(m, GameMod::UnknownOsu(_) | GameMod::UnknownTaiko(_) | GameMod::UnknownCatch(_) | GameMod::UnknownMania(_)) {
                        mods.insert(m);
                    }
                }
                LazerExtra::HoldOff => {
                    if mode == GameMode::Mania {
                        mods.insert(GameMod::new("HO", mm));
                    }
                }
                LazerExtra::Invert => {
                    if mode == GameMode::Mania {
                        mods.insert(GameMod::new("IN", mm));
                    }
                }
                LazerExtra::TenKeys => {
                    if mode == GameMode::Mania {
                        mods.insert(GameMod::new("10K", mm));
                    }
                }
                LazerExtra::Random(seed) => {
                    let mut m = GameMod::new("RD", mm);
                    match &mut m {
                        GameMod::RandomTaiko(r) => r.seed = *seed,
                        GameMod::RandomMania(r) => r.seed = *seed,
                        GameMod::RandomOsu(r) => r.seed = *seed,
                        _ => continue,
                    }
                    mods.insert(m);
                }
                LazerExtra::DifficultyAdjust(ar, cs, hp, od) => {
                    let m = match mode {
                        GameMode::Osu => GameMod::DifficultyAdjustOsu(DifficultyAdjustOsu {
                            approach_rate: *ar,
                            circle_size: *cs,
                            drain_rate: *hp,
                            overall_difficulty: *od,
                            ..Default::default()
                        }),
                        GameMode::Taiko => GameMod::DifficultyAdjustTaiko(DifficultyAdjustTaiko {
                            drain_rate: *hp,
                            overall_difficulty: *od,
                            ..Default::default()
                        }),
                        GameMode::Catch => GameMod::DifficultyAdjustCatch(DifficultyAdjustCatch {
                            approach_rate: *ar,
                            circle_size: *cs,
                            drain_rate: *hp,
                            overall_difficulty: *od,
                            ..Default::default()
                        }),
                        GameMode::Mania => GameMod::DifficultyAdjustMania(DifficultyAdjustMania {
                            drain_rate: *hp,
                            overall_difficulty: *od,
                            ..Default::default()
                        }),
                    };
                    mods.insert(m);
                }
                LazerExtra::Daycore(r) => {
                    let mut m = GameMod::new("DC", mm);
                    if let Some(r) = r {
                        set_speed(&mut m, *r);
                    }
                    mods.insert(m);
                }
                LazerExtra::Rate(r) => {
                    for m in mods.iter_mut() {
                        set_speed(m, *r);
                    }
                }
                LazerExtra::RateOf(acr, r) => {
                    for m in mods.iter_mut() {
                        if m.acronym().as_str() == *acr {
                            set_speed(m, *r);
                        }
                    }
                }
                LazerExtra::Acronym(a) => {
                    let m = GameMod::new(a, mm);
                    if !matches!(m, GameMod::UnknownOsu(_) | GameMod::UnknownTaiko(_) | GameMod::UnknownCatch(_) | GameMod::UnknownMania(_)) {
                        mods.insert(m);
                    }
                }
            }
        }
        Some(mods)
    }

    /// The intermode representation: the legacy bits plus those extras that are a plain mod without settings
    /// (Classic, HoldOff, Invert, 10K, other acronyms), restricted to what the mode knows like `lazer()` does.
    pub fn intermode(&self, mode: GameMode) -> GameModsIntermode {
        let mut im = GameModsIntermode::from_bits(self.bits);
        for e in self.intermode_extras(mode) {
            let acr = match e {
                LazerExtra::Classic | LazerExtra::ClassicSetting(_) => "CL",
                LazerExtra::HoldOff => "HO",
                LazerExtra::Invert => "IN",
                LazerExtra::TenKeys => "10K",
                LazerExtra::Acronym(a) => a,
                _ => continue,
            };
            im.insert(GameMod::new(acr, mods_mode(mode)).intermode());
        }
        im
    }

    /// Extras that survive in the intermode representation for `mode`.
    fn intermode_extras(&self, mode: GameMode) -> Vec<LazerExtra> {
        let mm = mods_mode(mode);
        self.extras
            .iter()
            .filter(|e| match e {
                LazerExtra::Classic => true,
                LazerExtra::HoldOff | LazerExtra::Invert | LazerExtra::TenKeys => mode == GameMode::Mania,
                LazerExtra::Acronym(a) => !matches!(GameMod::new(a, mm), GameMod::UnknownOsu(_) | GameMod::UnknownTaiko(_) | GameMod::UnknownCatch(_) | GameMod::UnknownMania(_)),
                _ => false,
            })
            .cloned()
            .collect()
    }

    pub fn build(&self, mode: GameMode) -> GameMods {
        match self.repr {
            ModRepr::U32 => GameMods::from(self.bits),
            ModRepr::Legacy => GameMods::from(GameModsLegacy::from_bits(self.bits)),
            ModRepr::Intermode => GameMods::from(self.intermode(mode)),
            ModRepr::IntermodeRef => GameMods::from(&self.intermode(mode)),
            ModRepr::Lazer => match self.lazer(mode) {
                Some(m) => GameMods::from(m),
                None => GameMods::from(self.intermode(mode)),
            },
        }
    }

    pub fn describe(&self) -> Value {
        json!({"bits": self.bits, "acronyms": GameModsIntermode::from_bits(self.bits).to_string(), "repr": format!("{:?}", self.repr), "extras": format!("{:?}", self.extras)})
    }

    /// The lazer-only extras that actually take effect for `mode` (none unless the lazer
    /// representation can be built: otherwise `build` falls back to the intermode bits).
    pub fn effective_extras(&self, mode: GameMode) -> Vec<LazerExtra> {
        match self.repr {
            ModRepr::Lazer if self.lazer(mode).is_some() => self.extras.clone(),
            // (the lazer representation falls back to the intermode one when the mode lacks one of the mods)
            ModRepr::Lazer | ModRepr::Intermode | ModRepr::IntermodeRef => self.intermode_extras(mode),
            _ => Vec::new(),
        }
    }

    /// Whether a Classic mod (with or without explicit setting) takes effect for `mode`.
    pub fn has_classic(&self, mode: GameMode) -> bool {
        self.effective_extras(mode).iter().any(|e| matches!(e, LazerExtra::Classic | LazerExtra::ClassicSetting(_)))
    }

    pub fn is_nomod(&self) -> bool {
        self.bits == 0 && (matches!(self.repr, ModRepr::U32 | ModRepr::Legacy) || self.extras.is_empty())
    }
}

pub fn set_speed(m: &mut GameMod, r: f64) {
    macro_rules! set {
        ($($v:ident),*) => {
            match m {
                $( GameMod::$v(x) => x.speed_change = Some(r), )*
                _ => {}
            }
        };
    }
    set!(
        DoubleTimeOsu, DoubleTimeTaiko, DoubleTimeCatch, DoubleTimeMania, HalfTimeOsu, HalfTimeTaiko,
        HalfTimeCatch, HalfTimeMania, NightcoreOsu, NightcoreTaiko, NightcoreCatch, NightcoreMania,
        DaycoreOsu, DaycoreTaiko, DaycoreCatch, DaycoreMania
    );
}

#[derive(Clone, Debug, PartialEq)]
pub struct DiffSpec {
    pub mods: ModsSpec,
    pub clock_rate: Option<f64>,
    pub ar: Option<(f32, bool)>,
    pub cs: Option<(f32, bool)>,
    pub hp: Option<(f32, bool)>,
    pub od: Option<(f32, bool)>,
    pub hr_offsets: Option<bool>,
    pub lazer: Option<bool>,
    pub passed: Option<u32>,
}

impl DiffSpec {
    pub const fn default_spec() -> Self {
        Self {
            mods: ModsSpec::nomod(),
            clock_rate: None,
            ar: None,
            cs: None,
            hp: None,
            od: None,
            hr_offsets: None,
            lazer: None,
            passed: None,
        }
    }

    pub fn build(&self, mode: GameMode) -> Difficulty {
        // the setters are independent; which of mods(..) and the others comes first is derived from the
        // specification itself (deterministic), so that half of all specifications set the mods last
        let mods_last = {
            let key = format!("{:?}{:?}{:?}{:?}", self.mods.bits, self.clock_rate, self.passed, self.od);
            crate::engine::fnv(key.as_bytes()) & 1 == 1
        };
        let mut d = Difficulty::new();
        if !mods_last {
            d = d.mods(self.mods.build(mode));
        }
        if let Some(p) = self.passed {
            d = d.passed_objects(p);
        }
        if let Some(c) = self.clock_rate {
            d = d.clock_rate(c);
        }
        if let Some((v, w)) = self.ar {
            d = d.ar(v, w);
        }
        if let Some((v, w)) = self.cs {
            d = d.cs(v, w);
        }
        if let Some((v, w)) = self.hp {
            d = d.hp(v, w);
        }
        if let Some((v, w)) = self.od {
            d = d.od(v, w);
        }
        if let Some(h) = self.hr_offsets {
            d = d.hardrock_offsets(h);
        }
        if let Some(l) = self.lazer {
            d = d.lazer(l);
        }
        if mods_last {
            d = d.mods(self.mods.build(mode));
        }
        d
    }

    pub fn is_default(&self) -> bool {
        *self == Self::default_spec()
    }

    pub fn describe(&self) -> Value {
        json!({
            "mods": self.mods.describe(), "clock_rate": self.clock_rate, "ar": self.ar.map(|a| format!("{a:?}")),
            "cs": self.cs.map(|a| format!("{a:?}")), "hp": self.hp.map(|a| format!("{a:?}")), "od": self.od.map(|a| format!("{a:?}")),
            "hr_offsets": self.hr_offsets, "lazer": self.lazer, "passed": self.passed,
        })
    }
}

#[derive(Clone, Debug)]
pub struct DiffProfile {
    /// clock rates only in [0.5, 2] (else up to [0.01, 100] and beyond for clamp checks)
    pub realistic: bool,
    /// generate `passed_objects`
    pub with_passed: Option<u32>,
    /// allow lazer-only mods
    pub lazer_mods: bool,
    /// mania key mods
    pub key_mods: bool,
}

impl DiffProfile {
    pub const fn realistic() -> Self {
        Self { realistic: true, with_passed: None, lazer_mods: true, key_mods: true }
    }
    pub const fn wide() -> Self {
        Self { realistic: false, with_passed: None, lazer_mods: true, key_mods: true }
    }
    pub const fn passed(mut self, n: u32) -> Self {
        self.with_passed = Some(n);
        self
    }
}

const SIMPLE_MODS: [u32; 11] = [HD, HR, DT, EZ, HT, FL, NF, SO, TD, RX, AP];

pub fn gen_mod_bits(t: &mut Tape, key_mods: bool) -> u32 {
    let mut bits = 0u32;
    match t.weighted(&[5, 5, 4, 2, 1]) {
        0 => {}
        1 => bits |= *t.pick(&SIMPLE_MODS),
        2 => {
            bits |= *t.pick(&SIMPLE_MODS);
            bits |= *t.pick(&SIMPLE_MODS);
        }
        3 => {
            for _ in 0..4 {
                bits |= *t.pick(&SIMPLE_MODS);
            }
        }
        _ => bits |= t.raw() & (NF | EZ | TD | HD | HR | DT | RX | HT | FL | SO | AP),
    }
    if t.chance(1, 10) {
        bits = (bits & !(DT | HT)) | NC;
    }
    // mostly sane combinations; incompatible ones keep a small share
    if !t.chance(1, 8) {
        if bits & HR != 0 {
            bits &= !EZ;
        }
        if bits & DT != 0 {
            bits &= !HT;
        }
        if bits & RX != 0 {
            bits &= !AP;
        }
    }
    if key_mods && t.chance(1, 3) {
        bits |= *t.pick(&KEY_BITS);
        // several key mods at once cannot be selected in the game but can be expressed in every representation
        if t.chance(1, 8) {
            bits |= *t.pick(&KEY_BITS);
        }
    }
    bits
}

fn gen_override(t: &mut Tape, realistic: bool) -> Option<(f32, bool)> {
    if !t.chance(1, 4) {
        return None;
    }
    let v = if realistic {
        match t.weighted(&[6, 3]) {
            0 => t.range(0, 11) as f32,
            _ => (t.range(0, 110) as f32) / 10.0,
        }
    } else {
        match t.weighted(&[6, 3, 2, 1]) {
            0 => t.range(0, 11) as f32,
            1 => (t.range(-200, 200) as f32) / 10.0,
            2 => *t.pick(&[-20.0f32, 20.0, -25.0, 30.0, 1e9, -1e9]),
            _ => *t.pick(&[f32::INFINITY, f32::NEG_INFINITY, f32::MAX, f32::MIN]),
        }
    };
    Some((v, t.coin()))
}

pub fn gen_diff(t: &mut Tape, p: &DiffProfile, mode: GameMode) -> DiffSpec {
    let bits = gen_mod_bits(t, p.key_mods);
    let repr = *t.pick(&[ModRepr::U32, ModRepr::U32, ModRepr::Legacy, ModRepr::Intermode, ModRepr::IntermodeRef, ModRepr::Lazer, ModRepr::Lazer]);
    let mut extras = Vec::new();
    if matches!(repr, ModRepr::Intermode | ModRepr::IntermodeRef) && p.lazer_mods && t.chance(1, 2) {
        // lazer-only mods without settings can be expressed as intermode mods as well
        if t.chance(1, 3) {
            extras.push(LazerExtra::Classic);
        }
        if mode == GameMode::Mania {
            if t.chance(1, 4) {
                extras.push(LazerExtra::HoldOff);
            }
            if t.chance(1, 4) {
                extras.push(LazerExtra::Invert);
            }
        }
        if t.chance(1, 3) {
            extras.push(LazerExtra::Acronym(*t.pick(&LAZER_ACRONYMS)));
        }
    }
    if repr == ModRepr::Lazer && p.lazer_mods {
        if t.chance(1, 4) {
            extras.push(if t.chance(1, 3) { LazerExtra::ClassicSetting(t.coin()) } else { LazerExtra::Classic });
        }
        if t.chance(1, 6) {
            extras.push(LazerExtra::Mirror(*t.pick(&[None, Some("1"), Some("2"), Some("0")])));
        }
        if mode == GameMode::Mania {
            if t.chance(1, 5) {
                extras.push(LazerExtra::HoldOff);
            }
            if t.chance(1, 5) {
                extras.push(LazerExtra::Invert);
            }
            if bits & ALL_KEYS == 0 && t.chance(1, 10) {
                extras.push(LazerExtra::TenKeys);
            }
        }
        if matches!(mode, GameMode::Mania | GameMode::Taiko) && t.chance(1, 5) {
            extras.push(LazerExtra::Random(match t.weighted(&[6, 2, 1]) {
                0 => Some(t.range(0, 100_000) as f64),
                1 => None,
                // the seed is an f64 that the library casts to i32 (saturating): the ends of that range and beyond
                _ => Some(*t.pick(&[-1.0, 2147483647.0, -2147483648.0, -1e10, 4e9, 0.5, -2147483647.0])),
            }));
        }
        if t.chance(1, 6) {
            let v = |t: &mut Tape| if t.coin() { Some((t.range(0, 110) as f64) / 10.0) } else { None };
            extras.push(LazerExtra::DifficultyAdjust(v(t), v(t), v(t), v(t)));
        }
        if bits & (DT | HT) != 0 && t.chance(1, 3) {
            let r = if bits & DT != 0 {
                (t.range(101, 200) as f64) / 100.0
            } else {
                (t.range(50, 99) as f64) / 100.0
            };
            extras.push(LazerExtra::Rate(r));
        }
        if t.chance(1, 2) {
            extras.push(LazerExtra::Acronym(*t.pick(&LAZER_ACRONYMS)));
        }
    }
    let clock_rate = if t.chance(1, 3) {
        Some(if p.realistic {
            match t.weighted(&[4, 4]) {
                0 => *t.pick(&[1.5, 0.75, 1.0, 2.0, 0.5, 1.37]),
                _ => (t.range(50, 200) as f64) / 100.0 + if t.coin() { 0.003 } else { 0.0 },
            }
        } else {
            match t.weighted(&[4, 4, 2, 1]) {
                0 => *t.pick(&[1.5, 0.75, 1.0, 2.0, 0.5, 1.37]),
                1 => t.float(0.5, 2.0),
                2 => *t.pick(&[0.01, 100.0, 0.05, 20.0, 7.3]),
                _ => *t.pick(&[0.0, -1.0, 1000.0, f64::INFINITY, 0.001]),
            }
        })
    } else {
        None
    };
    DiffSpec {
        mods: ModsSpec { bits, repr, extras },
        clock_rate,
        ar: gen_override(t, p.realistic),
        cs: gen_override(t, p.realistic),
        hp: gen_override(t, p.realistic),
        od: gen_override(t, p.realistic),
        hr_offsets: if t.chance(1, 6) { Some(t.coin()) } else { None },
        lazer: match t.weighted(&[4, 1, 2]) {
            0 => None,
            1 => Some(true),
            _ => Some(false),
        },
        passed: p.with_passed.and_then(|n| {
            if t.chance(1, 2) {
                Some(match t.weighted(&[10, 1, 1]) {
                    0 => t.range(0, i64::from(n) + 3) as u32,
                    1 => u32::MAX,
                    _ => n.saturating_mul(2),
                })
            } else {
                None
            }
        }),
    }
}

// ---------------------------------------------------------------------------
// JSON round-trip (replay files carry the explicit case, not only the tape)

pub fn fj(v: f64) -> Value {
    json!(format!("{v:?}"))
}

pub fn jf(v: &Value) -> Option<f64> {
    match v {
        Value::String(s) => s.parse::<f64>().ok(),
        Value::Number(n) => n.as_f64(),
        _ => None,
    }
}

fn ofj(v: Option<f64>) -> Value {
    v.map_or(Value::Null, fj)
}

fn ov(v: Option<(f32, bool)>) -> Value {
    v.map_or(Value::Null, |(x, w)| json!([fj(f64::from(x)), w]))
}

fn vo(v: &Value) -> Option<(f32, bool)> {
    let a = v.as_array()?;
    Some((jf(a.first()?)? as f32, a.get(1)?.as_bool()?))
}

impl LazerExtra {
    pub fn to_json(&self) -> Value {
        match self {
            Self::Classic => json!(["Classic"]),
            Self::ClassicSetting(b) => json!(["ClassicSetting", b]),
            Self::Mirror(r) => json!(["Mirror", r]),
            Self::HoldOff => json!(["HoldOff"]),
            Self::Invert => json!(["Invert"]),
            Self::TenKeys => json!(["TenKeys"]),
            Self::Random(s) => json!(["Random", ofj(*s)]),
            Self::DifficultyAdjust(a, c, h, o) => json!(["DA", ofj(*a), ofj(*c), ofj(*h), ofj(*o)]),
            Self::Rate(r) => json!(["Rate", fj(*r)]),
            Self::Daycore(r) => json!(["Daycore", ofj(*r)]),
            Self::Acronym(a) => json!(["Acronym", a]),
            Self::RateOf(a, r) => json!(["RateOf", a, fj(*r)]),
        }
    }

    pub fn from_json(v: &Value) -> Option<Self> {
        let a = v.as_array()?;
        Some(match a.first()?.as_str()? {
            "Classic" => Self::Classic,
            "ClassicSetting" => Self::ClassicSetting(a.get(1).and_then(Value::as_bool).unwrap_or(false)),
            "Mirror" => Self::Mirror(match a.get(1).and_then(Value::as_str) {
                None => None,
                Some("1") => Some("1"),
                Some("2") => Some("2"),
                Some(_) => Some("0"),
            }),
            "HoldOff" => Self::HoldOff,
            "Invert" => Self::Invert,
            "TenKeys" => Self::TenKeys,
            "Random" => Self::Random(a.get(1).and_then(jf)),
            "DA" => Self::DifficultyAdjust(a.get(1).and_then(jf), a.get(2).and_then(jf), a.get(3).and_then(jf), a.get(4).and_then(jf)),
            "Rate" => Self::Rate(jf(a.get(1)?)?),
            "Daycore" => Self::Daycore(a.get(1).and_then(jf)),
            "RateOf" => Self::RateOf(["DT", "NC", "HT", "DC"].iter().copied().find(|x| Some(*x) == a.get(1).and_then(Value::as_str))?, jf(a.get(2)?)?),
            "Acronym" => Self::Acronym(LAZER_ACRONYMS.iter().copied().find(|x| Some(*x) == a.get(1).and_then(Value::as_str))?),
            _ => return None,
        })
    }
}

impl ModsSpec {
    pub fn to_json(&self) -> Value {
        json!({"bits": self.bits, "repr": format!("{:?}", self.repr), "extras": self.extras.iter().map(LazerExtra::to_json).collect::<Vec<_>>()})
    }

    pub fn from_json(v: &Value) -> Option<Self> {
        let repr = match v.get("repr").and_then(Value::as_str).unwrap_or("U32") {
            "Legacy" => ModRepr::Legacy,
            "Intermode" => ModRepr::Intermode,
            "IntermodeRef" => ModRepr::IntermodeRef,
            "Lazer" => ModRepr::Lazer,
            _ => ModRepr::U32,
        };
        let extras = v
            .get("extras")
            .and_then(Value::as_array)
            .map(|a| a.iter().filter_map(LazerExtra::from_json).collect())
            .unwrap_or_default();
        Some(Self { bits: v.get("bits").and_then(Value::as_u64).unwrap_or(0) as u32, repr, extras })
    }
}

impl DiffSpec {
    pub fn to_json(&self) -> Value {
        json!({
            "mods": self.mods.to_json(), "clock_rate": ofj(self.clock_rate), "ar": ov(self.ar), "cs": ov(self.cs),
            "hp": ov(self.hp), "od": ov(self.od), "hr_offsets": self.hr_offsets, "lazer": self.lazer, "passed": self.passed,
        })
    }

    pub fn from_json(v: &Value) -> Option<Self> {
        if v.is_null() {
            return Some(Self::default_spec());
        }
        Some(Self {
            mods: v.get("mods").map_or_else(|| Some(ModsSpec::nomod()), ModsSpec::from_json)?,
            clock_rate: v.get("clock_rate").and_then(jf),
            ar: v.get("ar").and_then(vo),
            cs: v.get("cs").and_then(vo),
            hp: v.get("hp").and_then(vo),
            od: v.get("od").and_then(vo),
            hr_offsets: v.get("hr_offsets").and_then(Value::as_bool),
            lazer: v.get("lazer").and_then(Value::as_bool),
            passed: v.get("passed").and_then(Value::as_u64).map(|p| p as u32),
        })
    }
}

pub fn mode_name(m: GameMode) -> &'static str {
    match m {
        GameMode::Osu => "Osu",
        GameMode::Taiko => "Taiko",
        GameMode::Catch => "Catch",
        GameMode::Mania => "Mania",
    }
}

pub fn mode_from_name(s: &str) -> GameMode {
    match s {
        "Taiko" => GameMode::Taiko,
        "Catch" => GameMode::Catch,
        "Mania" => GameMode::Mania,
        _ => GameMode::Osu,
    }
}
