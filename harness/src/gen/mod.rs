pub mod diff;
pub mod map;
pub mod score;
