//! Canonical dump of every public result type: a flat list of (field, value).
//! `same-value` equality (`≡`): two f64 are the same iff `a == b` or both are NaN
//! (so `-0.0 ≡ 0.0`).

use rosu_pp::{
    any::{DifficultyAttributes, PerformanceAttributes, ScoreState, Strains},
    catch::{CatchDifficultyAttributes, CatchPerformanceAttributes, CatchScoreState, CatchStrains},
    mania::{ManiaDifficultyAttributes, ManiaPerformanceAttributes, ManiaScoreState, ManiaStrains},
    model::beatmap::{BeatmapAttributes, HitWindows},
    osu::{OsuDifficultyAttributes, OsuPerformanceAttributes, OsuScoreState, OsuStrains},
    taiko::{TaikoDifficultyAttributes, TaikoPerformanceAttributes, TaikoScoreState, TaikoStrains},
};

#[derive(Clone, Debug)]
pub enum Val {
    F(f64),
    U(u64),
    B(bool),
    S(String),
    None,
}

impl Val {
    pub fn same(&self, other: &Val) -> bool {
        match (self, other) {
            (Val::F(a), Val::F(b)) => a == b || (a.is_nan() && b.is_nan()),
            (Val::U(a), Val::U(b)) => a == b,
            (Val::B(a), Val::B(b)) => a == b,
            (Val::S(a), Val::S(b)) => a == b,
            (Val::None, Val::None) => true,
            _ => false,
        }
    }
}

#[derive(Clone, Debug, Default)]
pub struct Dump(pub Vec<(String, Val)>);

impl Dump {
    pub fn f(&mut self, name: &str, v: f64) {
        self.0.push((name.to_string(), Val::F(v)));
    }
    pub fn of(&mut self, name: &str, v: Option<f64>) {
        self.0.push((name.to_string(), v.map_or(Val::None, Val::F)));
    }
    pub fn u(&mut self, name: &str, v: u64) {
        self.0.push((name.to_string(), Val::U(v)));
    }
    pub fn b(&mut self, name: &str, v: bool) {
        self.0.push((name.to_string(), Val::B(v)));
    }
    pub fn s(&mut self, name: &str, v: impl Into<String>) {
        self.0.push((name.to_string(), Val::S(v.into())));
    }
    pub fn vf(&mut self, name: &str, v: &[f64]) {
        self.u(&format!("{name}.len"), v.len() as u64);
        if v.len() > 50_000 {
            // very long peak lists (day-long gaps): one digest entry per 4096 values keeps dumps cheap
            for (c, chunk) in v.chunks(4096).enumerate() {
                let mut h: u64 = 0xcbf2_9ce4_8422_2325;
                let mut all_ok = true;
                for x in chunk {
                    let bits = if x.is_nan() { f64::NAN.to_bits() } else if *x == 0.0 { 0 } else { x.to_bits() };
                    h = (h ^ bits).wrapping_mul(0x0000_0100_0000_01b3);
                    h ^= h >> 31;
                    all_ok &= x.is_finite() && *x >= 0.0;
                }
                self.u(&format!("{name}.chunk{c}.digest"), h);
                self.b(&format!("{name}.chunk{c}.finite_nonneg"), all_ok);
            }
            return;
        }
        for (i, x) in v.iter().enumerate() {
            self.f(&format!("{name}[{i}]"), *x);
        }
    }
    pub fn nested(&mut self, prefix: &str, inner: &impl Canon) {
        let mut d = Dump::default();
        inner.canon(&mut d);
        for (k, v) in d.0 {
            self.0.push((format!("{prefix}.{k}"), v));
        }
    }

    /// First difference, if any.
    pub fn diff(&self, other: &Dump) -> Option<String> {
        if self.0.len() != other.0.len() {
            return Some(format!("field count {} vs {}", self.0.len(), other.0.len()));
        }
        for ((ka, va), (kb, vb)) in self.0.iter().zip(other.0.iter()) {
            if ka != kb {
                return Some(format!("field name {ka} vs {kb}"));
            }
            if !va.same(vb) {
                return Some(format!("{ka}: {va:?} vs {vb:?}"));
            }
        }
        None
    }

    pub fn floats(&self) -> impl Iterator<Item = (&str, f64)> {
        self.0.iter().filter_map(|(k, v)| match v {
            Val::F(f) => Some((k.as_str(), *f)),
            _ => None,
        })
    }

    pub fn get_f(&self, name: &str) -> Option<f64> {
        self.0.iter().find_map(|(k, v)| match v {
            Val::F(f) if k == name => Some(*f),
            _ => None,
        })
    }

    /// Cheap order-sensitive digest of names and canonical values (for dumps with 10^5..10^6 entries).
    pub fn digest(&self) -> u64 {
        let mut h: u64 = 0xcbf2_9ce4_8422_2325;
        let mut mix = |x: u64| {
            h ^= x;
            h = h.wrapping_mul(0x0000_0100_0000_01b3);
            h ^= h >> 29;
        };
        for (k, v) in &self.0 {
            mix(crate::engine::fnv(k.as_bytes()));
            match v {
                Val::F(f) => mix(if f.is_nan() { f64::NAN.to_bits() } else if *f == 0.0 { 0 } else { f.to_bits() }),
                Val::U(u) => mix(*u),
                Val::B(b) => mix(u64::from(*b)),
                Val::S(x) => mix(crate::engine::fnv(x.as_bytes())),
                Val::None => mix(0x5555),
            }
        }
        h
    }

    /// One-line rendering with exact float bits (used across processes/builds).
    pub fn line(&self) -> String {
        let mut s = String::new();
        for (k, v) in &self.0 {
            s.push_str(k);
            s.push('=');
            match v {
                Val::F(f) => {
                    // numeric equality across builds: NaN canonical, -0.0 == 0.0
                    let c = if f.is_nan() { f64::NAN } else if *f == 0.0 { 0.0 } else { *f };
                    s.push_str(&format!("{:016x}", c.to_bits()));
                }
                Val::U(u) => s.push_str(&u.to_string()),
                Val::B(b) => s.push_str(if *b { "T" } else { "F" }),
                Val::S(x) => s.push_str(x),
                Val::None => s.push('-'),
            }
            s.push(';');
        }
        s
    }
}

pub trait Canon {
    fn canon(&self, d: &mut Dump);
    fn dump(&self) -> Dump {
        let mut d = Dump::default();
        self.canon(&mut d);
        d
    }
}

/// `a ≡ b` or an error naming the first differing field.
pub fn same<T: Canon>(what: &str, a: &T, b: &T) -> Result<(), String> {
    match a.dump().diff(&b.dump()) {
        None => Ok(()),
        Some(d) => Err(format!("{what}: {d}")),
    }
}

impl<T: Canon> Canon for Option<T> {
    fn canon(&self, d: &mut Dump) {
        match self {
            Some(v) => {
                d.b("some", true);
                v.canon(d);
            }
            None => d.b("some", false),
        }
    }
}

impl<T: Canon> Canon for Vec<T> {
    fn canon(&self, d: &mut Dump) {
        d.u("len", self.len() as u64);
        for (i, v) in self.iter().enumerate() {
            d.nested(&format!("[{i}]"), v);
        }
    }
}

impl Canon for f64 {
    fn canon(&self, d: &mut Dump) {
        d.f("value", *self);
    }
}

impl Canon for OsuDifficultyAttributes {
    fn canon(&self, d: &mut Dump) {
        d.f("aim", self.aim);
        d.f("aim_difficult_slider_count", self.aim_difficult_slider_count);
        d.f("speed", self.speed);
        d.f("flashlight", self.flashlight);
        d.f("slider_factor", self.slider_factor);
        d.f("speed_note_count", self.speed_note_count);
        d.f("aim_difficult_strain_count", self.aim_difficult_strain_count);
        d.f("speed_difficult_strain_count", self.speed_difficult_strain_count);
        d.f("ar", self.ar);
        d.f("great_hit_window", self.great_hit_window);
        d.f("ok_hit_window", self.ok_hit_window);
        d.f("meh_hit_window", self.meh_hit_window);
        d.f("hp", self.hp);
        d.u("n_circles", self.n_circles.into());
        d.u("n_sliders", self.n_sliders.into());
        d.u("n_large_ticks", self.n_large_ticks.into());
        d.u("n_spinners", self.n_spinners.into());
        d.f("stars", self.stars);
        d.u("max_combo", self.max_combo.into());
    }
}

impl Canon for OsuPerformanceAttributes {
    fn canon(&self, d: &mut Dump) {
        d.nested("difficulty", &self.difficulty);
        d.f("pp", self.pp);
        d.f("pp_acc", self.pp_acc);
        d.f("pp_aim", self.pp_aim);
        d.f("pp_flashlight", self.pp_flashlight);
        d.f("pp_speed", self.pp_speed);
        d.f("effective_miss_count", self.effective_miss_count);
        d.of("speed_deviation", self.speed_deviation);
    }
}

impl Canon for TaikoDifficultyAttributes {
    fn canon(&self, d: &mut Dump) {
        d.f("stamina", self.stamina);
        d.f("rhythm", self.rhythm);
        d.f("color", self.color);
        d.f("reading", self.reading);
        d.f("great_hit_window", self.great_hit_window);
        d.f("ok_hit_window", self.ok_hit_window);
        d.f("mono_stamina_factor", self.mono_stamina_factor);
        d.f("stars", self.stars);
        d.u("max_combo", self.max_combo.into());
        d.b("is_convert", self.is_convert);
    }
}

impl Canon for TaikoPerformanceAttributes {
    fn canon(&self, d: &mut Dump) {
        d.nested("difficulty", &self.difficulty);
        d.f("pp", self.pp);
        d.f("pp_acc", self.pp_acc);
        d.f("pp_difficulty", self.pp_difficulty);
        d.f("effective_miss_count", self.effective_miss_count);
        d.of("estimated_unstable_rate", self.estimated_unstable_rate);
    }
}

impl Canon for CatchDifficultyAttributes {
    fn canon(&self, d: &mut Dump) {
        d.f("stars", self.stars);
        d.f("ar", self.ar);
        d.u("n_fruits", self.n_fruits.into());
        d.u("n_droplets", self.n_droplets.into());
        d.u("n_tiny_droplets", self.n_tiny_droplets.into());
        d.b("is_convert", self.is_convert);
    }
}

impl Canon for CatchPerformanceAttributes {
    fn canon(&self, d: &mut Dump) {
        d.nested("difficulty", &self.difficulty);
        d.f("pp", self.pp);
    }
}

impl Canon for ManiaDifficultyAttributes {
    fn canon(&self, d: &mut Dump) {
        d.f("stars", self.stars);
        d.u("n_objects", self.n_objects.into());
        d.u("n_hold_notes", self.n_hold_notes.into());
        d.u("max_combo", self.max_combo.into());
        d.b("is_convert", self.is_convert);
    }
}

impl Canon for ManiaPerformanceAttributes {
    fn canon(&self, d: &mut Dump) {
        d.nested("difficulty", &self.difficulty);
        d.f("pp", self.pp);
        d.f("pp_difficulty", self.pp_difficulty);
    }
}

impl Canon for DifficultyAttributes {
    fn canon(&self, d: &mut Dump) {
        match self {
            Self::Osu(a) => {
                d.s("mode", "osu");
                a.canon(d);
            }
            Self::Taiko(a) => {
                d.s("mode", "taiko");
                a.canon(d);
            }
            Self::Catch(a) => {
                d.s("mode", "catch");
                a.canon(d);
            }
            Self::Mania(a) => {
                d.s("mode", "mania");
                a.canon(d);
            }
        }
    }
}

impl Canon for PerformanceAttributes {
    fn canon(&self, d: &mut Dump) {
        match self {
            Self::Osu(a) => {
                d.s("mode", "osu");
                a.canon(d);
            }
            Self::Taiko(a) => {
                d.s("mode", "taiko");
                a.canon(d);
            }
            Self::Catch(a) => {
                d.s("mode", "catch");
                a.canon(d);
            }
            Self::Mania(a) => {
                d.s("mode", "mania");
                a.canon(d);
            }
        }
    }
}

impl Canon for OsuStrains {
    fn canon(&self, d: &mut Dump) {
        d.vf("aim", &self.aim);
        d.vf("aim_no_sliders", &self.aim_no_sliders);
        d.vf("speed", &self.speed);
        d.vf("flashlight", &self.flashlight);
    }
}

impl Canon for TaikoStrains {
    fn canon(&self, d: &mut Dump) {
        d.vf("color", &self.color);
        d.vf("reading", &self.reading);
        d.vf("rhythm", &self.rhythm);
        d.vf("stamina", &self.stamina);
        d.vf("single_color_stamina", &self.single_color_stamina);
    }
}

impl Canon for CatchStrains {
    fn canon(&self, d: &mut Dump) {
        d.vf("movement", &self.movement);
    }
}

impl Canon for ManiaStrains {
    fn canon(&self, d: &mut Dump) {
        d.vf("strains", &self.strains);
    }
}

impl Canon for Strains {
    fn canon(&self, d: &mut Dump) {
        d.f("section_len", self.section_len());
        match self {
            Self::Osu(a) => {
                d.s("mode", "osu");
                a.canon(d);
            }
            Self::Taiko(a) => {
                d.s("mode", "taiko");
                a.canon(d);
            }
            Self::Catch(a) => {
                d.s("mode", "catch");
                a.canon(d);
            }
            Self::Mania(a) => {
                d.s("mode", "mania");
                a.canon(d);
            }
        }
    }
}

impl Canon for ScoreState {
    fn canon(&self, d: &mut Dump) {
        d.u("max_combo", self.max_combo.into());
        d.u("osu_large_tick_hits", self.osu_large_tick_hits.into());
        d.u("osu_small_tick_hits", self.osu_small_tick_hits.into());
        d.u("slider_end_hits", self.slider_end_hits.into());
        d.u("n_geki", self.n_geki.into());
        d.u("n_katu", self.n_katu.into());
        d.u("n300", self.n300.into());
        d.u("n100", self.n100.into());
        d.u("n50", self.n50.into());
        d.u("misses", self.misses.into());
    }
}

impl Canon for OsuScoreState {
    fn canon(&self, d: &mut Dump) {
        ScoreState::from(self.clone()).canon(d);
    }
}
impl Canon for TaikoScoreState {
    fn canon(&self, d: &mut Dump) {
        ScoreState::from(*self).canon(d);
    }
}
impl Canon for CatchScoreState {
    fn canon(&self, d: &mut Dump) {
        ScoreState::from(self.clone()).canon(d);
    }
}
impl Canon for ManiaScoreState {
    fn canon(&self, d: &mut Dump) {
        ScoreState::from(self.clone()).canon(d);
    }
}

impl Canon for HitWindows {
    fn canon(&self, d: &mut Dump) {
        d.f("ar", self.ar);
        d.f("od_great", self.od_great);
        d.of("od_ok", self.od_ok);
        d.of("od_meh", self.od_meh);
    }
}

impl Canon for BeatmapAttributes {
    fn canon(&self, d: &mut Dump) {
        d.f("ar", self.ar);
        d.f("od", self.od);
        d.f("cs", self.cs);
        d.f("hp", self.hp);
        d.f("clock_rate", self.clock_rate);
        d.nested("hit_windows", &self.hit_windows);
    }
}
