//! Known findings: `/verif/known_findings.json` (committed, never written at run time).
//! Entries are `{key, property, subcheck, status: "open"|"fixed", what, witnesses: [{path, expect?}], commit?}`.
//! Generators consult `is_open(key)` to steer away from an *open* class by construction;
//! once an entry is `fixed` (or absent) the class is generated and checked like any other input.

use std::{collections::BTreeMap, path::PathBuf, sync::OnceLock};

use serde_json::Value;

#[derive(Clone, Debug)]
pub struct Finding {
    pub key: String,
    pub property: String,
    pub subcheck: String,
    pub open: bool,
    pub what: String,
    /// (path relative to /verif, substring the failure message must contain)
    pub witnesses: Vec<(String, Option<String>)>,
    pub commit: Option<String>,
}

pub fn root() -> PathBuf {
    std::env::var_os("VERIF_ROOT").map_or_else(|| PathBuf::from("/verif"), PathBuf::from)
}

static FINDINGS: OnceLock<BTreeMap<String, Finding>> = OnceLock::new();

pub fn all() -> &'static BTreeMap<String, Finding> {
    FINDINGS.get_or_init(|| {
        let mut map = BTreeMap::new();
        let path = root().join("known_findings.json");
        let Ok(text) = std::fs::read_to_string(&path) else { return map };
        let Ok(v) = serde_json::from_str::<Value>(&text) else {
            eprintln!("warning: {} is not valid JSON", path.display());
            return map;
        };
        for e in v.get("findings").and_then(Value::as_array).cloned().unwrap_or_default() {
            let s = |k: &str| e.get(k).and_then(Value::as_str).map(str::to_string);
            let Some(key) = s("key") else { continue };
            map.insert(
                key.clone(),
                Finding {
                    key,
                    property: s("property").unwrap_or_default(),
                    subcheck: s("subcheck").unwrap_or_default(),
                    open: s("status").as_deref() == Some("open"),
                    what: s("what").unwrap_or_default(),
                    witnesses: e
                        .get("witnesses")
                        .and_then(Value::as_array)
                        .map(|a| {
                            a.iter()
                                .filter_map(|w| {
                                    Some((
                                        w.get("path")?.as_str()?.to_string(),
                                        w.get("expect").and_then(Value::as_str).map(str::to_string),
                                    ))
                                })
                                .collect()
                        })
                        .unwrap_or_default(),
                    commit: s("commit"),
                },
            );
        }
        map
    })
}

pub fn is_open(key: &str) -> bool {
    // VERIF_IGNORE_KNOWN=all|key,key disables steering (used when validating that a finding still reproduces)
    if let Ok(list) = std::env::var("VERIF_IGNORE_KNOWN") {
        if list == "all" || list.split(',').any(|k| k == key) {
            return false;
        }
    }
    all().get(key).is_some_and(|f| f.open)
}
