//! Property-running engine: proptest `TestRunner` over a choice tape, sharded
//! over threads, with counting, classification, sampling, shrinking and replay
//! files. The deciding step is always generated-input search against the oracle
//! coded in the sub-check's case function.

use std::{
    cell::RefCell,
    collections::{BTreeMap, HashSet},
    panic::{self, AssertUnwindSafe},
    path::{Path, PathBuf},
    sync::{Mutex, Once},
    time::Instant,
};

use proptest::{
    collection::vec,
    prelude::any,
    test_runner::{Config, RngSeed, TestCaseError, TestError, TestRunner},
};
use serde_json::{json, Value};

use crate::tape::Tape;

pub const SHARDS: u64 = 16;

/// Per-case bookkeeping filled in by the case function.
#[derive(Default)]
pub struct CaseInfo {
    /// Classifier labels (histogram in the evidence).
    pub labels: Vec<String>,
    /// Whether the case is non-trivial by the sub-check's stated rule.
    pub nontrivial: bool,
    /// Hash of the canonical case (distinctness).
    pub key: u64,
    /// The engine sets this when it wants the case written out.
    pub want_sample: bool,
    /// Human-readable rendering of the case (only when `want_sample`).
    pub sample: Option<Value>,
    /// Components regenerated to steer away from an open known finding.
    pub excluded_known: u64,
    /// Candidates discarded because they are outside the stated domain.
    pub excluded_domain: u64,
    /// Number of oracle comparisons performed inside this case.
    pub comparisons: u64,
    /// Explicit, generator-independent form of the case (written into replay files when present).
    pub direct: Option<Value>,
}

impl CaseInfo {
    pub fn label(&mut self, l: impl Into<String>) {
        self.labels.push(l.into());
    }
    pub fn label_if(&mut self, c: bool, l: &str) {
        if c {
            self.labels.push(l.to_string());
        }
    }
    pub fn set_key(&mut self, s: &str) {
        self.key = fnv(s.as_bytes());
    }
    pub fn mix_key(&mut self, s: &str) {
        self.key = self.key.rotate_left(17) ^ fnv(s.as_bytes());
    }
}

pub type CaseFn = fn(&mut Tape, &mut CaseInfo) -> Result<(), String>;
/// Runs the oracle on an explicit case (replay without the generator).
pub type DirectFn = fn(&Value) -> Result<(), String>;

/// Set by the first shard that finds a failing case: the other shards stop generating (only one
/// counterexample per sub-check is shrunk and reported; on a tree where the property holds this
/// flag is never set, so evidence stays a pure function of the seed).
static FOUND: std::sync::atomic::AtomicBool = std::sync::atomic::AtomicBool::new(false);

pub struct SubCheck {
    pub name: &'static str,
    /// what is generated / the oracle / non-trivial rule (goes into evidence.rule)
    pub rule: &'static str,
    pub quick: u32,
    pub thorough: u32,
    pub tape_len: usize,
    pub f: CaseFn,
    pub direct: Option<DirectFn>,
}

#[derive(Default)]
pub struct SubStats {
    pub evaluations: u64,
    pub nontrivial: u64,
    pub distinct: HashSet<u64>,
    pub classes: BTreeMap<String, u64>,
    pub samples: Vec<Value>,
    pub excluded_known: u64,
    pub excluded_domain: u64,
    pub comparisons: u64,
}

pub struct Failure {
    pub subcheck: String,
    pub message: String,
    pub tape: Vec<u32>,
    pub case: Option<Value>,
    pub direct: Option<Value>,
    pub replay_path: Option<PathBuf>,
}

pub fn fnv(bytes: &[u8]) -> u64 {
    let mut h: u64 = 0xcbf2_9ce4_8422_2325;
    for b in bytes {
        h ^= u64::from(*b);
        h = h.wrapping_mul(0x0000_0100_0000_01b3);
    }
    h
}

thread_local! {
    static LAST_PANIC: RefCell<Option<String>> = const { RefCell::new(None) };
}

static HOOK: Once = Once::new();

/// Install a silent panic hook that records message and location per thread.
pub fn install_panic_hook() {
    HOOK.call_once(|| {
        panic::set_hook(Box::new(|info| {
            let msg = if let Some(s) = info.payload().downcast_ref::<&str>() {
                (*s).to_string()
            } else if let Some(s) = info.payload().downcast_ref::<String>() {
                s.clone()
            } else {
                "<non-string panic>".to_string()
            };
            let loc = info
                .location()
                .map(|l| format!("{}:{}", l.file(), l.line()))
                .unwrap_or_default();
            LAST_PANIC.with(|p| *p.borrow_mut() = Some(format!("panic at {loc}: {msg}")));
        }));
    });
}

/// Run a closure, turning a panic into `Err(description)`.
pub fn guarded<T>(f: impl FnOnce() -> T) -> Result<T, String> {
    install_panic_hook();
    match panic::catch_unwind(AssertUnwindSafe(f)) {
        Ok(v) => Ok(v),
        Err(_) => Err(LAST_PANIC
            .with(|p| p.borrow_mut().take())
            .unwrap_or_else(|| "panic (no message)".to_string())),
    }
}

/// Execute one case (also used for replay, bypassing proptest).
pub fn run_case(f: CaseFn, tape: &[u32], want_sample: bool) -> (Result<(), String>, CaseInfo) {
    let mut info = CaseInfo {
        want_sample,
        ..CaseInfo::default()
    };
    let mut t = Tape::new(tape.to_vec());
    let res = guarded(|| f(&mut t, &mut info));
    let res = match res {
        Ok(r) => r,
        Err(p) => Err(p),
    };
    (res, info)
}

fn shard_run(sub: &SubCheck, cases: u32, seed: u64, shard: u64) -> (SubStats, Option<(String, Vec<u32>)>) {
    let mut stats = SubStats::default();
    if cases == 0 {
        return (stats, None);
    }
    let cfg = Config {
        cases,
        failure_persistence: None,
        rng_seed: RngSeed::Fixed(seed ^ shard.wrapping_mul(0x9E37_79B9_7F4A_7C15)),
        max_shrink_iters: if sub.tape_len > 3000 { 400 } else { 2500 },
        max_global_rejects: 1,
        ..Config::default()
    };
    let mut runner = TestRunner::new(cfg);
    let failed = std::cell::Cell::new(false);
    let stats_cell = RefCell::new(&mut stats);
    let f = sub.f;
    let sample_every = (cases / 3).max(1) as u64;
    // optional crash localisation (sanitizer runs): the tape of the case about to run is written
    // to <dir>/<subcheck>-<shard>.json, so an abort can be attributed to a case
    let case_log = std::env::var_os("VERIF_CASE_LOG_DIR").map(|d| std::path::PathBuf::from(d).join(format!("{}-{shard}.json", sub.name)));
    let result = runner.run(&vec(any::<u32>(), sub.tape_len), |tape| {
        if let Some(path) = &case_log {
            let _ = std::fs::write(path, format!("{{\"subcheck\": \"{}\", \"tape\": {:?}}}", sub.name, tape));
        }
        let counting = !failed.get();
        if counting && FOUND.load(std::sync::atomic::Ordering::Relaxed) {
            // another shard already holds a counterexample for this sub-check
            return Ok(());
        }
        let want = counting && {
            let s = stats_cell.borrow();
            s.samples.len() < 3 && (s.evaluations % sample_every == 0 || s.samples.is_empty())
        };
        let (res, info) = run_case(f, &tape, want);
        if counting {
            let mut s = stats_cell.borrow_mut();
            s.evaluations += 1;
            s.excluded_known += info.excluded_known;
            s.excluded_domain += info.excluded_domain;
            s.comparisons += info.comparisons;
            for l in &info.labels {
                *s.classes.entry(l.clone()).or_default() += 1;
            }
            if info.nontrivial {
                s.nontrivial += 1;
                s.distinct.insert(info.key);
                if let Some(v) = info.sample {
                    if s.samples.len() < 3 {
                        s.samples.push(v);
                    }
                }
            }
        }
        match res {
            Ok(()) => Ok(()),
            Err(m) => {
                if counting {
                    if FOUND.swap(true, std::sync::atomic::Ordering::SeqCst) {
                        // lost the race against another shard: do not shrink a second counterexample
                        return Ok(());
                    }
                    failed.set(true);
                }
                Err(TestCaseError::fail(m))
            }
        }
    });
    drop(stats_cell);
    match result {
        Ok(()) => (stats, None),
        Err(TestError::Fail(reason, tape)) => (stats, Some((reason.message().to_string(), tape))),
        Err(TestError::Abort(reason)) => (
            stats,
            Some((format!("proptest aborted: {}", reason.message()), Vec::new())),
        ),
    }
}

/// Run one sub-check over all shards in parallel.
pub fn run_subcheck(prop: &str, sub: &SubCheck, thorough: bool, seed: u64) -> (SubStats, Option<Failure>) {
    let total = if thorough { sub.thorough } else { sub.quick };
    FOUND.store(false, std::sync::atomic::Ordering::SeqCst);
    let sub_seed = seed ^ fnv(format!("{prop}/{}", sub.name).as_bytes());
    let per = total / SHARDS as u32;
    let extra = total % SHARDS as u32;
    let results: Mutex<Vec<(u64, SubStats, Option<(String, Vec<u32>)>)>> = Mutex::new(Vec::new());
    std::thread::scope(|s| {
        for shard in 0..SHARDS {
            let n = per + u32::from((shard as u32) < extra);
            let results = &results;
            std::thread::Builder::new()
                .stack_size(64 << 20)
                .spawn_scoped(s, move || {
                    let (st, fail) = shard_run(sub, n, sub_seed, shard);
                    results.lock().unwrap().push((shard, st, fail));
                })
                .expect("spawn");
        }
    });
    let mut results = results.into_inner().unwrap();
    results.sort_by_key(|r| r.0);
    let mut merged = SubStats::default();
    let mut failure = None;
    for (_, st, fail) in results {
        merged.evaluations += st.evaluations;
        merged.nontrivial += st.nontrivial;
        merged.distinct.extend(st.distinct);
        merged.excluded_known += st.excluded_known;
        merged.excluded_domain += st.excluded_domain;
        merged.comparisons += st.comparisons;
        for (k, v) in st.classes {
            *merged.classes.entry(k).or_default() += v;
        }
        for s in st.samples {
            if merged.samples.len() < 4 {
                merged.samples.push(s);
            }
        }
        if failure.is_none() {
            if let Some((message, tape)) = fail {
                // re-run the shrunk case to obtain its rendering
                let (_, info) = run_case(sub.f, &tape, true);
                failure = Some(Failure {
                    subcheck: sub.name.to_string(),
                    message,
                    tape,
                    case: info.sample,
                    direct: info.direct,
                    replay_path: None,
                });
            }
        }
    }
    (merged, failure)
}

pub fn write_replay(dir: &Path, prop: &str, fail: &mut Failure, seed: u64) {
    let _ = std::fs::create_dir_all(dir);
    let sig = fnv(format!("{}{:?}", fail.subcheck, fail.tape).as_bytes());
    let path = dir.join(format!("{}-{:016x}.json", fail.subcheck.replace('/', "_"), sig));
    let v = json!({
        "property": prop,
        "subcheck": fail.subcheck,
        "seed": seed,
        "message": fail.message,
        "case": fail.case,
        "direct": fail.direct,
        "tape": fail.tape,
    });
    let _ = std::fs::write(&path, serde_json::to_string_pretty(&v).unwrap());
    fail.replay_path = Some(path);
}

pub struct Timer(Instant);
impl Timer {
    pub fn start() -> Self {
        Self(Instant::now())
    }
    pub fn secs(&self) -> f64 {
        self.0.elapsed().as_secs_f64()
    }
}

/// `n` tapes drawn from a proptest runner seeded with `seed` (no test is run; used by the
/// cross-process / cross-build differentials, which need the same inputs in several processes).
pub fn seeded_tapes(seed: u64, n: usize, len: usize) -> Vec<Vec<u32>> {
    use proptest::strategy::{Strategy, ValueTree};
    let cfg = Config {
        failure_persistence: None,
        rng_seed: RngSeed::Fixed(seed),
        ..Config::default()
    };
    let mut runner = TestRunner::new(cfg);
    let strat = vec(any::<u32>(), len);
    (0..n).map(|_| strat.new_tree(&mut runner).expect("tape").current()).collect()
}
