//! rosu-verif: property-based testing harness for rosu-pp (see /verif/DESIGN.md).
#![allow(clippy::too_many_lines, clippy::type_complexity)]

pub mod canon;
pub mod engine;
pub mod gen;
pub mod known;
pub mod props;
pub mod tape;
