//! `cargo run --release --features hook --example show_case -- <replay.json>`: prints the case a tape stands
//! for (the sample the sub-check attaches), its labels, and how long the oracle took.
use rosu_verif::{engine::run_case, props};

fn main() {
    let path = std::env::args().nth(1).expect("replay file");
    let v: serde_json::Value = serde_json::from_str(&std::fs::read_to_string(path).expect("read")).expect("json");
    let prop = props::property(v["property"].as_str().expect("property")).expect("unknown property");
    let sub = prop.subchecks.iter().find(|s| Some(s.name) == v["subcheck"].as_str()).expect("unknown sub-check");
    let tape: Vec<u32> = v["tape"].as_array().expect("tape").iter().map(|x| x.as_u64().unwrap() as u32).collect();
    let t0 = std::time::Instant::now();
    let (res, info) = run_case(sub.f, &tape, true);
    println!("result: {res:?}\nseconds: {:.3}\nlabels: {:?}\nsample: {}", t0.elapsed().as_secs_f64(), info.labels, serde_json::to_string_pretty(&info.sample).unwrap());
}
